"""C16 - parameter constraints survive every sequence of updates.

Bounded runtime contracts (kind "B", real TensorFlow) on the REAL ``tf_pwa.variable.VarsManager`` / ``Variable`` / ``Bound``.

* configuration phase: every manager shape reachable in the order a configuration applies the operations
  (create -> fix/free -> tie -> bound) with up to 2 complex + 2 real parameters;
* histories: from selected shapes ALL operation sequences up to a stated length over a stated alphabet, explored depth first on one
  manager object with save/restore of the complete manager state; after EVERY step the clauses of the statement are evaluated;
* the Bound transformation for the three documented default functions and a list of custom expressions.

The right-hand sides are written from the property statement and the docstrings of tf_pwa/variable.py (which name gets which value, the
documented default bound functions), never from the method bodies: the expected state after an operation is computed from the
state observed before it by the small rules below ("who was explicitly assigned", "complex value is preserved", ...).

Reading conventions (stated once, used by every clause)
  value of a real parameter          = VarsManager.get(name, val_in_fit=False), i.e. the stored physical value
  value of a complex parameter       = Variable.__call__() (what the amplitude multiplies with); while a mask covers one of its names the
                                       same number is computed from the stored components and the polar flag
  "explicitly assigned"              = the operation names the parameter or a name tied to it: set(name), set_all(dict) keys, set_all(list)
                                       for the free names, temp_params(params) keys (at entry and, restoring, at exit)
  coordinate switch / standardise    = re-expresses the two stored components of the switched complex parameter; for those components the
                                       clause is "complex value preserved", for everything else "unchanged"
Clauses that concern a complex parameter one of whose stored components is tied at the level of the real variables (set_share_r / r_shareto
partners, set_same on component names, a real parameter tied to a radius) - and the names tied to such a component - are reported under
separate obligations "...@component_tie"; parameters that are untied or tied as a whole (Variable.sameas, set_same(cplx=True)) are the
unsuffixed class.  The class is decided from the tie operations of the shape alone (Spec.partial_c / partial_n), not from the outcome.
"""
from __future__ import annotations

import cmath
import contextlib
import io
import itertools
import math
import warnings

import numpy as np

from vt.core.oblig import group

# Tolerances.
# A polar <-> Cartesian switch evaluates r*cos(phi), r*sin(phi), sqrt(x^2+y^2), atan2(y,x) once each in float64: the complex value is
# reproduced to a few ulp of |z|; the statement's |diff| <= 1e-12*(1+|z|) leaves > 3 orders of magnitude.
TOL_Z = 1e-12
# Bound round trips y -> x -> y go through sympy evalf (15 significant digits).  For the default two-sided function the composition
# f(inv(y)) is well conditioned everywhere (d f/dx * d inv/dy = 1, the asin singularity cancels), error ~ eps*(b-a); same 1e-12*(1+|y|).
TOL_B = 1e-12
# slope: central finite difference with h = 1e-5*max(1,|x|): truncation error h^2/6*|f'''| ~ 2e-11*|f'|, rounding eps*|f|/h ~ 1e-11; the
# statement's rtol 1e-6 is far above both; an absolute floor 1e-9*scale covers the zeros of the slope (cos x = 0, x = 0 of sqrt(x^2+1)).
RTOL_SLOPE = 1e-6


@contextlib.contextmanager
def _quiet():
    with contextlib.redirect_stdout(io.StringIO()), warnings.catch_warnings():
        warnings.simplefilter("ignore")
        yield


def _short(w, n=1500):
    s = repr(w)
    return s if len(s) <= n else s[:n] + "..."


class Acc:
    """aggregates evaluations into named obligations; keeps the SMALLEST failing input (rank = (path length, shape size))"""

    def __init__(self, ctx):
        self.ctx = ctx
        self.items = {}

    def declare(self, name, clause):
        self.items.setdefault(name, {"clause": clause, "n": 0, "bad": None, "rank": None, "nbad": 0})

    def add(self, name, ok, witness=None, rank=(0, 0)):
        it = self.items[name]
        it["n"] += 1
        if not ok:
            it["nbad"] += 1
            if it["bad"] is None or rank < it["rank"]:
                it["bad"] = witness() if callable(witness) else (witness or {})
                it["rank"] = rank

    def flush(self, allow_vacuous=()):
        for name, it in self.items.items():
            if it["n"] == 0:
                if name in allow_vacuous:
                    continue
                self.ctx.check(name, False, clause=it["clause"], detail="no evaluation reached this obligation (vacuous)", witness={})
                continue
            bad = it["bad"]
            if bad is not None:
                bad = dict(bad, failing_evaluations=it["nbad"], evaluations=it["n"])
            self.ctx.check(name, bad is None, clause=it["clause"], detail="" if bad is None else "smallest failing input: %s" % _short(bad), witness=bad)


# ---------------------------------------------------------------------------------------------
# documented bound functions (Bound docstring) and custom expressions: (expression given to the library, f, df, d2f, monotone?)
# ---------------------------------------------------------------------------------------------

BIG = 1e9  # the library substitutes a missing bound by -+1e9 in a custom expression; the expressions below do not use the missing one


def _bf(kind, lo, hi):
    """-> (func string or None, f, df, d2f) written from the Bound docstring / elementary calculus"""
    if kind == "two":
        return None, (lambda x: (hi - lo) * (math.sin(x) + 1) / 2 + lo), (lambda x: (hi - lo) * math.cos(x) / 2), (lambda x: -(hi - lo) * math.sin(x) / 2)
    if kind == "lower":
        return None, (lambda x: lo - 1 + math.sqrt(x * x + 1)), (lambda x: x / math.sqrt(x * x + 1)), (lambda x: (x * x + 1) ** -1.5)
    if kind == "upper":
        return None, (lambda x: hi + 1 - math.sqrt(x * x + 1)), (lambda x: -x / math.sqrt(x * x + 1)), (lambda x: -((x * x + 1) ** -1.5))
    if kind == "logistic":
        s = lambda x: 1.0 / (1.0 + math.exp(-x))  # noqa: E731
        return ("a+(b-a)/(1+exp(-x))", (lambda x: lo + (hi - lo) * s(x)), (lambda x: (hi - lo) * s(x) * (1 - s(x))),
                (lambda x: (hi - lo) * s(x) * (1 - s(x)) * (1 - 2 * s(x))))
    if kind == "atan":
        return ("(b-a)*(atan(x)/pi+1/2)+a", (lambda x: (hi - lo) * (math.atan(x) / math.pi + 0.5) + lo), (lambda x: (hi - lo) / math.pi / (1 + x * x)),
                (lambda x: -(hi - lo) / math.pi * 2 * x / (1 + x * x) ** 2))
    if kind == "tanh":
        return ("(b-a)*(tanh(x)+1)/2+a", (lambda x: (hi - lo) * (math.tanh(x) + 1) / 2 + lo), (lambda x: (hi - lo) / 2 / math.cosh(x) ** 2),
                (lambda x: -(hi - lo) * math.tanh(x) / math.cosh(x) ** 2))
    if kind == "exp_lower":
        return "a+exp(x)", (lambda x: lo + math.exp(x)), (lambda x: math.exp(x)), (lambda x: math.exp(x))
    if kind == "exp_upper":
        return "b-exp(-x)", (lambda x: hi - math.exp(-x)), (lambda x: math.exp(-x)), (lambda x: -math.exp(-x))
    raise KeyError(kind)


def _in_range(y, lo, hi, strict=False, slack=0.0):
    if slack:
        # the transformation is evaluated by sympy evalf to 15 significant digits: f(-pi/2) may come out one ulp below a
        return (lo is None or y >= lo - slack * (1 + abs(lo))) and (hi is None or y <= hi + slack * (1 + abs(hi)))
    if strict:
        return (lo is None or y > lo) and (hi is None or y < hi)
    return (lo is None or y >= lo) and (hi is None or y <= hi)


# fit-space abscissa used by set(name, x) on a bounded name: inside the principal domain of the documented inverse
FIT_X = {"two": 0.4, "lower": 0.9, "upper": 0.9, "logistic": 0.4, "atan": 0.4, "tanh": 0.4, "exp_lower": -0.3, "exp_upper": 0.3}


# ---------------------------------------------------------------------------------------------
# shapes
# ---------------------------------------------------------------------------------------------


class Shape:
    """nc complex parameters c1,c2 (components c1r,c1i,...), nr real parameters a,b;
    polar0: coordinate form at creation; fix: real-level names fixed; ties: tie operations in order; bounds: ((name, kind, lo, hi), ...);
    api: 0/1 chooses between the VarsManager level and the Variable level spelling of the same configuration step"""

    def __init__(self, nc, nr, polar0=True, fix=(), ties=(), bounds=(), api=0):
        self.nc, self.nr, self.polar0, self.fix, self.ties, self.bounds, self.api = nc, nr, bool(polar0), tuple(fix), tuple(ties), tuple(bounds), api

    @property
    def cnames(self):
        return ["c1", "c2"][: self.nc]

    @property
    def rnames(self):
        return ["a", "b"][: self.nr]

    @property
    def names(self):
        out = []
        for c in self.cnames:
            out += [c + "r", c + "i"]
        return out + self.rnames

    @property
    def size(self):
        return 2 * self.nc + self.nr

    @property
    def rank_size(self):
        """for choosing the witness to report: configurations a decay card produces (whole ties, shared radii) before the exotic real-to-component ties"""
        exotic = any(t[0] == "same" and len({n in ("a", "b") for n in t[1]}) == 2 for t in self.ties)
        return self.size + (10 if exotic else 0)

    def describe(self):
        return {"complex": self.cnames, "real": self.rnames, "created_polar": self.polar0, "fixed": list(self.fix), "ties": [list(map(_j, t)) for t in self.ties],
                "bounds": [list(b) for b in self.bounds], "api": "Variable level" if self.api else "VarsManager level"}

    def key(self):
        return (self.nc, self.nr, self.polar0, self.fix, self.ties, self.bounds, self.api)


def _j(x):
    return list(x) if isinstance(x, tuple) else x


class Spec:
    """what the CONFIGURATION means, computed from the shape alone (union-find over the tie operations)"""

    def __init__(self, shape):
        self.shape = shape
        names = shape.names
        parent = {n: n for n in names}

        def find(x):
            while parent[x] != x:
                x = parent[x]
            return x

        def union(x, y):
            parent[find(y)] = find(x)

        whole = []  # complex parameters tied as a whole (complex-level tie operations)
        for t in shape.ties:
            if t[0] == "same":
                for n in t[1][1:]:
                    union(t[1][0], n)
            elif t[0] in ("same_var", "same_cplx"):
                x, y = (t[1], t[2]) if t[0] == "same_var" else t[1]
                if x in shape.cnames:
                    union(x + "r", y + "r")
                    union(x + "i", y + "i")
                    whole.append({x, y})
                else:
                    union(x, y)
            elif t[0] in ("share_r", "r_shareto"):
                x, y = t[1] if t[0] == "share_r" else (t[1], t[2])
                union(x + "r", y + "r")
            else:
                raise KeyError(t)
        self.cell = {n: find(n) for n in names}
        self.members = {}
        for n in names:
            self.members.setdefault(self.cell[n], []).append(n)
        # "if one is untrainable, the others will all be untrainable" (tie of a fixed with a free parameter)
        self.fixed_cells = {c for c, ms in self.members.items() if any(m in shape.fix for m in ms)}
        self.free_cells = set(self.members) - self.fixed_cells
        self.bound = {b[0]: b[1:] for b in shape.bounds}  # name -> (kind, lo, hi)
        self.comp_of = {}
        for c in shape.cnames:
            self.comp_of[c + "r"] = (c, "r")
            self.comp_of[c + "i"] = (c, "i")
        # fully tied twins and partially shared parameters
        self.twins = {}
        for c in shape.cnames:
            self.twins[c] = [q for q in shape.cnames if q != c and any({c, q} <= w for w in whole)]
        self.partial_c = {}
        for c in shape.cnames:
            ok = True
            for k in "ri":
                allowed = {q + k for q in [c] + self.twins[c]}
                if set(self.members[self.cell[c + k]]) - allowed:
                    ok = False
            self.partial_c[c] = not ok
        self.partial_n = {}
        for n in names:
            ms = self.members[self.cell[n]]
            if n in self.comp_of:
                self.partial_n[n] = self.partial_c[self.comp_of[n][0]]
            else:
                self.partial_n[n] = any(m in self.comp_of for m in ms)

    def fixed(self, name):
        return self.cell[name] in self.fixed_cells

    def cell_bound(self, name):
        """a bound declared on any name of the cell restricts the raw values the harness assigns to that cell"""
        for m in self.members[self.cell[name]]:
            if m in self.bound:
                return self.bound[m]
        return None


RAW = {"r": [-0.7, 1.3, 0.6, 1.9], "i": [4.0, -2.0, -7.5, 0.5], "x": [1.3, 0.4, 0.9, 1.6]}


def raw_value(spec, name, k):
    """k-th canonical raw (physical) value for the cell of `name`; radii may be negative and phases outside [-pi,pi) unless a bound on the
    cell says otherwise (then strictly inside the allowed range)"""
    name = spec.cell[name]
    b = spec.cell_bound(name)
    if b is not None:
        kind, lo, hi = b
        fr = [0.3, 0.65, 0.45, 0.8][k % 4]
        if lo is not None and hi is not None:
            return lo + fr * (hi - lo)
        if lo is not None:
            return lo + 0.2 + 1.5 * fr
        return hi - 0.2 - 1.5 * fr
    role = spec.comp_of[name][1] if name in spec.comp_of else "x"
    v = RAW[role][k % 4]
    # distinct cells of the same role get distinct numbers
    return v + 0.01 * spec.shape.names.index(name)


# ---------------------------------------------------------------------------------------------
# building a manager in configuration order
# ---------------------------------------------------------------------------------------------


class Built:
    pass


def build(ctx, shape, seed=0):
    V = ctx.mod("variable")
    tf = ctx.mod("tensorflow_wrapper").tf
    tf.random.set_seed(1000 + seed)
    np.random.seed(1000 + seed)
    spec = Spec(shape)
    vm = V.VarsManager()
    vars_ = {}
    fix = set(shape.fix)
    with _quiet():
        # 1. create (a complex parameter fixed as a whole may be created fixed: Variable(..., fix=True))
        for c in shape.cnames:
            whole = (c + "r") in fix and (c + "i") in fix
            if whole and shape.api == 1:
                vars_[c] = V.Variable(c, cplx=True, vm=vm, polar=shape.polar0, fix=True, fix_vals=(1.2, 0.4))
            else:
                vars_[c] = V.Variable(c, cplx=True, vm=vm, polar=shape.polar0)
        for i, r in enumerate(shape.rnames):
            if i == 0:
                vars_[r] = V.Variable(r, vm=vm, value=0.8)  # declared initial value (refresh_vars returns to it)
            else:
                vars_[r] = V.Variable(r, vm=vm, range_=(0.3, 1.4))
        # 2. fix / free
        for c in shape.cnames:
            fr, fi = (c + "r") in fix, (c + "i") in fix
            if fr and fi:
                if shape.api == 0:
                    vars_[c].fixed(1.2 + 0.4j)
            else:
                if fr:
                    vm.set_fix(c + "r", 1.1)
                if fi:
                    vm.set_fix(c + "i")  # fix at the current value
        for r in shape.rnames:
            if r in fix:
                if shape.api == 0:
                    vm.set_fix(r, 0.7)
                else:
                    vars_[r].fixed(0.7)
            elif shape.api == 1:
                # fix then free again: the configuration's free_var after fix_var
                vars_[r].fixed()
                vars_[r].freed()
        # 3. tie
        for t in shape.ties:
            if t[0] == "same":
                vm.set_same(list(t[1]))
            elif t[0] == "same_cplx":
                vm.set_same(list(t[1]), cplx=True)
            elif t[0] == "same_var":
                vars_[t[1]].sameas(vars_[t[2]])
            elif t[0] == "share_r":
                vm.set_share_r(list(t[1]))
            elif t[0] == "r_shareto":
                vars_[t[1]].r_shareto(vars_[t[2]])
        # 4. bound
        for name, kind, lo, hi in shape.bounds:
            func = _bf(kind, lo, hi)[0]
            if name in shape.rnames and shape.api == 1 and func is None:
                vars_[name].set_bound((lo, hi))
            else:
                vm.set_bound({name: (lo, hi)}, func=func)
    b = Built()
    b.V, b.tf, b.vm, b.vars, b.spec, b.shape = V, tf, vm, vars_, spec, shape
    return b


# ---------------------------------------------------------------------------------------------
# observing / restoring the complete manager state
# ---------------------------------------------------------------------------------------------


def observe(b):
    vm = b.vm
    seen = {}
    u = {}
    for n in b.shape.names:
        v = vm.variables[n]
        if id(v) not in seen:
            seen[id(v)] = float(v.value().numpy())  # one read per variable object
        u[n] = seen[id(v)]
    return {
        "u": u,
        "flags": dict(vm.complex_vars),
        "polar": vm.polar,
        "mask": dict(vm.mask_vars),
        "train": list(vm.trainable_vars),
    }


def restore(b, s, cur=None):
    """write the observed state `s` back; `cur` (the state observed just now) only saves assignments of values that are already right"""
    vm = b.vm
    done = set()
    for n in b.shape.names:
        v = vm.variables[n]
        if id(v) not in done:
            done.add(id(v))
            if cur is None or cur["u"][n] != s["u"][n]:
                v.assign(s["u"][n], read_value=False)
    vm.complex_vars.clear()
    vm.complex_vars.update(s["flags"])
    vm.polar = s["polar"]
    vm.mask_vars = dict(s["mask"])
    vm.trainable_vars[:] = s["train"]


def z_from(s, c):
    r, i = s["u"][c + "r"], s["u"][c + "i"]
    return cmath.rect(r, i) if s["flags"].get(c) else complex(r, i)


def zvalues(b, s, prev=None):
    """complex value of every complex parameter: Variable() unless a mask covers one of its names.
    prev = (state, values) observed before: Variable() is not called again for a parameter when nothing observable changed (its two stored
    components, every polar flag, vm.polar and the mask are all identical) - the call was made on exactly that state already"""
    out = {}
    same_env = prev is not None and prev[0]["flags"] == s["flags"] and prev[0]["polar"] == s["polar"] and prev[0]["mask"] == s["mask"]
    for c in b.shape.cnames:
        if (c + "r") in s["mask"] or (c + "i") in s["mask"]:
            out[c] = z_from(s, c)
        elif same_env and prev[0]["u"][c + "r"] == s["u"][c + "r"] and prev[0]["u"][c + "i"] == s["u"][c + "i"]:
            out[c] = prev[1][c]
        else:
            out[c] = complex(b.vars[c]().numpy())
    return out


def _state_key(s, stack):
    return (tuple(round(v, 10) + 0.0 for v in s["u"].values()), tuple(sorted((k, bool(v)) for k, v in s["flags"].items())), bool(s["polar"]),
            tuple(sorted((k, round(float(v), 10)) for k, v in s["mask"].items())),
            tuple((e["kind"], tuple(round(e["entry"]["u"][n], 10) for n in sorted(e["params"]))) for e in stack))


# ---------------------------------------------------------------------------------------------
# clauses
# ---------------------------------------------------------------------------------------------

CL = {
    "setup/tied_share_value": "after create -> fix/free -> tie -> bound: all names of a tied group are served by one variable and read the same value "
                              "(get(name, val_in_fit=False), read(name), get_all_dic()); tied complex parameters return the same complex value",
    "setup/free_count_once": "after the configuration phase trainable_vars has no duplicates, contains exactly one name of every free cell and no name of a fixed cell "
                             "(a group with a fixed member is fixed); trainable_variables are distinct objects",
    "setup/reads_change_nothing": "get_all_val(), get_all_val(True), get_all_dic(), get_all_dic(True), trainable_variables, Variable() change no stored value, flag, mask "
                                  "or trainable_vars; get_all_dic() lists every name with its value and get_all_val() the free names in trainable_vars order",
    "history/tied_read_equal": "after every step: all names of a tied group are served by one variable object and read the same value (mask dicts closed under ties)",
    "history/free_count_once": "after every step: trainable_vars is unchanged by value operations: no duplicates, one name per free cell, no fixed name",
    "history/fixed_unchanged": "after every step: a fixed real parameter, and a fixed component of a complex parameter that was not coordinate-switched/standardised "
                               "in this step, keeps its stored value exactly unless the step explicitly assigned one of the names of its cell",
    "history/fixed_unchanged@component_tie": "same clause (steps other than coordinate switches / standardisation) for names whose cell is a component tied at the "
                                             "real-variable level (share_r partner, real tied to a radius)",
    "history/frame": "after every step: a complex parameter none of whose names was assigned keeps its complex value (1e-12*(1+|z|)) and a real parameter not assigned "
                     "keeps its value exactly; refresh_vars may change free cells only",
    "history/frame@component_tie": "same frame clause for parameters one of whose components is tied at the real-variable level, and the names tied to it",
    "assign/set": "set(name, v): the cell of name holds v afterwards (for a bounded name the documented transform f(v), and get(name) returns v), every other cell is unchanged exactly",
    "assign/set_all_dict": "set_all(dict): exactly the named cells hold the given values afterwards, every other cell unchanged",
    "assign/set_all_list": "set_all(list) and set_trans_var(list) (a fit step): the k-th name of trainable_vars holds the k-th value (f(x_k) through the bound for "
                           "set_trans_var), every fixed cell unchanged",
    "readback/dic_writeback@no_mask": "set_all(get_all_dic()) with no mask active changes no stored value (exact)",
    "readback/dic_writeback@mask_active": "set_all(get_all_dic()) inside a mask_params block changes no stored value: after the block every parameter reads as before",
    "readback/val_writeback": "set_all(get_all_val()) changes nothing (exact); set_all(get_all_val(True), val_in_fit=True) and set_trans_var(get_all_val(True)) change nothing "
                              "(1e-12*(1+|y|), bounded names with their stored value inside the allowed range)",
    "refresh/only_free_cells": "refresh_vars() (seeded) leaves every fixed cell, every polar flag, trainable_vars and the mask unchanged",
    "coord_switch/value_preserved": "rp2xy / xy2rp / rp2xy_all / xy2rp_all / trans_params(False): every complex parameter keeps its complex value "
                                    "(|diff| <= 1e-12*(1+|z|)); components of parameters not switched and all real parameters are unchanged exactly",
    "coord_switch/value_preserved@component_tie": "same clause (incl. the switch to polar form contained in std_polar_all / trans_params(True)) for complex parameters one of "
                                                  "whose components is tied at the real-variable level (set_share_r / r_shareto partners, set_same on component names, a real "
                                                  "parameter tied to a radius): each keeps its complex value; the real / fixed names tied to such a component keep their value",
    "standardise/value_preserved": "std_polar_all / standard_complex / trans_params(True): every complex parameter keeps its complex value (1e-12*(1+|z|)), reals unchanged",
    "standardise/value_preserved@component_tie": "same clause, all parameters already polar, for complex parameters one of whose components is tied at the real-variable level "
                                                 "(a shared radius made non-negative must not change the partner's complex value)",
    "standardise/r_nonneg": "after std_polar_all / trans_params(True) every complex parameter, after standard_complex every unconstrained polar one, is stored in polar form with r >= 0",
    "standardise/phase_in_range": "after std_polar_all / trans_params(True) every complex parameter, after standard_complex every unconstrained polar one, has -pi <= phi < pi",
    "scoped/mask_params": "mask_params(params): stored values unchanged at entry and exit; inside, read(name)/get_all_dic() give the mask value for masked names and the stored "
                          "value otherwise; after exit mask_vars is what it was before entry",
    "scoped/temp_params@unbounded": "temp_params(params) on names without bound: entry assigns exactly the named cells; exit returns exactly those cells to their values at "
                                    "entry, every other cell unchanged by the exit",
    "scoped/temp_params@bounded": "temp_params(params) with a bounded name among the keys: exit returns the named cells to their stored values at entry",
}

PARTIAL = "@component_tie"


class Checker:
    def __init__(self, ctx, acc):
        self.ctx, self.acc = ctx, acc
        for k, c in CL.items():
            acc.declare(k, c)

    # -- invariants of a state -------------------------------------------------------------
    def tied(self, b, s, z, prefix, wit, rank, prev=None):
        vm, spec = b.vm, b.spec
        ok, why = True, None
        dic = None
        # the values are read again only if something observable changed since the state `prev`, on which this check was made already
        reread = prev is None or prev["u"] != s["u"] or prev["mask"] != s["mask"]
        for cell, ms in spec.members.items():
            if len(ms) < 2:
                continue
            if len({id(vm.variables[m]) for m in ms}) != 1:
                ok, why = False, "names %s are served by different variables" % ms
                break
            if not reread:
                continue
            if dic is None:
                dic = vm.get_all_dic()
            g = [float(vm.get(m, val_in_fit=False)) for m in ms]
            rd = [float(np.asarray(vm.read(m))) for m in ms]
            dd = [float(dic[m]) for m in ms]
            if len(set(g)) != 1 or len(set(rd)) != 1 or len(set(dd)) != 1:
                ok, why = False, "names %s read get=%s read=%s get_all_dic=%s" % (ms, g, rd, dd)
                break
        if ok:
            for c in b.shape.cnames:
                for q in spec.twins[c]:
                    if abs(z[c] - z[q]) > TOL_Z * (1 + abs(z[c])):
                        ok, why = False, "tied complex parameters %s=%s %s=%s" % (c, z[c], q, z[q])
        self.acc.add(prefix, ok, lambda: wit(why), rank)

    def count_once(self, b, s, prefix, wit, rank):
        spec = b.spec
        tv = s["train"]
        why = None
        if len(set(tv)) != len(tv):
            why = "duplicate names in trainable_vars %s" % tv
        else:
            cells = [spec.cell.get(n) for n in tv]
            if None in cells:
                why = "unknown name in trainable_vars %s" % tv
            elif len(set(cells)) != len(cells):
                why = "a tied group is counted more than once: trainable_vars %s" % tv
            elif set(cells) != spec.free_cells:
                why = "trainable_vars %s, free cells %s, fixed cells %s" % (tv, sorted(spec.free_cells), sorted(spec.fixed_cells))
            elif len({id(v) for v in b.vm.trainable_variables}) != len(tv):
                why = "trainable_variables contains one object twice"
        self.acc.add(prefix, why is None, lambda: wit(why), rank)

    # -- one step ----------------------------------------------------------------------------
    def step(self, b, op, s0, z0, s1, z1, info, wit, rank):
        """s0/z0 state before, s1/z1 after; info: dict(assigned=set(cells), expect={cell: value or (value, tol)}, kind, targets=set(complex), ...)"""
        spec, shape, acc = b.spec, b.shape, self.acc
        kind = info["kind"]
        assigned = info.get("assigned", set())
        targets = info.get("targets", set())
        switched = kind in ("switch", "standardise")
        base = base_ct = None
        if switched:
            base = "coord_switch/value_preserved" if kind == "switch" else "standardise/value_preserved"
            # std_polar_all = "transform into standard polar coordinate": with a Cartesian parameter it contains a coordinate switch; for the
            # component_tie class the two are kept apart: standardise/...@component_tie is evaluated on all-polar states only
            to_polar = kind == "standardise" and any(not s0["flags"].get(c) for c in shape.cnames)
            base_ct = ("coord_switch/value_preserved" if (kind == "switch" or to_polar) else "standardise/value_preserved") + PARTIAL

        def changed(n):
            return s0["u"][n] != s1["u"][n]

        # generic: ties, counting, fixed, frame
        self.tied(b, s1, z1, "history/tied_read_equal", wit, rank, prev=s0)
        self.count_once(b, s1, "history/free_count_once", wit, rank)
        for n in shape.names:
            if not spec.fixed(n) or spec.cell[n] in assigned:
                continue
            if n in spec.comp_of and switched and spec.comp_of[n][0] in targets:
                continue
            if spec.partial_n[n]:
                nm = base_ct if switched else "history/fixed_unchanged" + PARTIAL
            else:
                nm = "history/fixed_unchanged"
            acc.add(nm, not changed(n), lambda n=n: wit("fixed name %s changed %r -> %r" % (n, s0["u"][n], s1["u"][n])), rank)
        if not switched:  # (switch / standardise steps have their own, stronger clause below)
            for c in shape.cnames:
                if spec.cell[c + "r"] in assigned or spec.cell[c + "i"] in assigned:
                    continue
                if kind == "refresh" and not (spec.fixed(c + "r") and spec.fixed(c + "i")):
                    continue
                if kind in ("mask_enter", "mask_exit"):
                    # the OBSERVED value legitimately changes with the mask; the stored one must not
                    za, zb = z_from(s0, c), z_from(s1, c)
                else:
                    za, zb = z0[c], z1[c]
                nm = "history/frame" + (PARTIAL if spec.partial_c[c] else "")
                acc.add(nm, abs(za - zb) <= TOL_Z * (1 + abs(za)), lambda c=c, za=za, zb=zb: wit("complex parameter %s changed %s -> %s without assignment" % (c, za, zb)), rank)
            for n in shape.names:
                if spec.cell[n] in assigned or (kind == "refresh" and not spec.fixed(n)):
                    continue
                nm = "history/frame" + (PARTIAL if spec.partial_n[n] else "")
                acc.add(nm, not changed(n), lambda n=n: wit("name %s changed %r -> %r without assignment" % (n, s0["u"][n], s1["u"][n])), rank)
            if s0["flags"] != s1["flags"]:
                acc.add("history/frame", False, lambda: wit("polar flags changed %s -> %s by a non-switch operation" % (s0["flags"], s1["flags"])), rank)
        # operation specific
        exp = info.get("expect")
        if exp is not None:
            bad = None
            for cell, want in exp.items():
                tol = 0.0
                if isinstance(want, tuple):
                    want, tol = want
                for m in spec.members[cell]:
                    got = s1["u"][m]
                    if not (abs(got - want) <= tol * (1 + abs(want))):
                        bad = "name %s holds %r, expected %r" % (m, got, want)
            for n in shape.names:
                if spec.cell[n] not in exp and changed(n) and not info.get("others_free"):
                    bad = bad or "name %s changed %r -> %r although it was not assigned" % (n, s0["u"][n], s1["u"][n])
            for extra in info.get("extra", []):
                bad = bad or extra
            acc.add(info["clause"], bad is None, lambda: wit(bad), rank)
        if kind == "refresh":
            bad = None
            for n in shape.names:
                if spec.fixed(n) and changed(n):
                    bad = "fixed name %s changed %r -> %r" % (n, s0["u"][n], s1["u"][n])
            if s0["flags"] != s1["flags"] or s0["mask"] != s1["mask"] or s0["train"] != s1["train"]:
                bad = bad or "flags/mask/trainable_vars changed"
            acc.add("refresh/only_free_cells", bad is None, lambda: wit(bad), rank)
        if switched:
            for c in shape.cnames:
                nm = base_ct if spec.partial_c[c] else base
                acc.add(nm, abs(z0[c] - z1[c]) <= TOL_Z * (1 + abs(z0[c])),
                        lambda c=c: wit("complex value of %s: %s -> %s (stored %s,%s polar=%s -> %s,%s polar=%s)" % (
                            c, z0[c], z1[c], s0["u"][c + "r"], s0["u"][c + "i"], s0["flags"].get(c), s1["u"][c + "r"], s1["u"][c + "i"], s1["flags"].get(c))), rank)
                if c not in targets and not spec.partial_c[c]:
                    same = not changed(c + "r") and not changed(c + "i") and s0["flags"].get(c) == s1["flags"].get(c)
                    acc.add(base, same, lambda c=c: wit("parameter %s was not addressed but its stored form changed" % c), rank)
            for n in shape.rnames:
                nm = base_ct if spec.partial_n[n] else base
                acc.add(nm, not changed(n), lambda n=n: wit("real parameter %s changed %r -> %r" % (n, s0["u"][n], s1["u"][n])), rank)
            if s0["mask"] != s1["mask"] or s0["train"] != s1["train"]:
                acc.add(base, False, lambda: wit("mask/trainable_vars changed"), rank)
        if kind == "standardise":
            for c in info["std_targets"]:
                r, p, pol = s1["u"][c + "r"], s1["u"][c + "i"], bool(s1["flags"].get(c))
                acc.add("standardise/r_nonneg", pol and r >= 0, lambda c=c, r=r, pol=pol: wit("%s stored r=%r polar=%s after standardisation" % (c, r, pol)), rank)
                acc.add("standardise/phase_in_range", -math.pi <= p < math.pi,
                        lambda c=c, p=p: wit("%s stored phase %r after standardisation (phase before %r)" % (c, p, s0["u"][c + "i"])), rank)


# ---------------------------------------------------------------------------------------------
# operations
# ---------------------------------------------------------------------------------------------


def alphabet(b, stack, has_bounds):
    """operations applicable in the current state (context managers nest LIFO, at most one open block of each kind)"""
    shape = b.shape
    ops = [("set", n) for n in shape.names]
    ops += [("set_all_dict", "full"), ("set_all_dict", "partial"), ("set_all_list",), ("fit_step",), ("dic_writeback",), ("val_writeback", False), ("reads",), ("refresh",)]
    if has_bounds:
        ops += [("val_writeback", True), ("trans_var_roundtrip",)]
    if shape.nc:
        ops += [("rp2xy_all",), ("xy2rp_all",), ("std_polar_all",), ("standard_complex",), ("trans_params", True), ("trans_params", False)]
        for c in shape.cnames:
            ops += [("rp2xy", c), ("xy2rp", c)]
    kinds = [e["kind"] for e in stack]
    if "mask" not in kinds:
        ops.append(("mask_enter",))
    if "temp" not in kinds:
        ops.append(("temp_enter",))
    if stack:
        ops.append((stack[-1]["kind"] + "_exit",))
    return ops


def _closed(spec, names):
    out = []
    for n in names:
        for m in spec.members[spec.cell[n]]:
            if m not in out:
                out.append(m)
    return out


def mask_dict(b, depth):
    spec, shape = b.spec, b.shape
    first = (shape.cnames[0] + "r") if shape.nc else shape.rnames[0]
    return {m: 1.0 + 0.25 * depth for m in _closed(spec, [first])}


def temp_dict(b, depth):
    spec, shape = b.spec, b.shape
    pick = []
    if shape.bounds:
        pick.append(shape.bounds[0][0])
    if shape.nc:
        pick.append(shape.cnames[-1] + "i")
    if shape.nr:
        pick.append(shape.rnames[-1])
    out = {}
    for n in _closed(spec, pick):
        out[n] = raw_value(spec, n, 2 + depth)
    return out


def apply_op(b, op, depth, stack, s0):
    """execute the operation on the real manager; -> info for Checker.step"""
    vm, spec, shape, tf = b.vm, b.spec, b.shape, b.tf
    k = op[0]
    if k == "set":
        n = op[1]
        cell = spec.cell[n]
        if n in spec.bound:
            kind, lo, hi = spec.bound[n]
            x = FIT_X[kind] + 0.1 * depth
            want = (_bf(kind, lo, hi)[1](x), TOL_B)
        else:
            x = raw_value(spec, n, depth)
            want = x
        vm.set(n, x)
        extra = []
        g = float(vm.get(n))
        if abs(g - x) > TOL_B * (1 + abs(x)):
            extra.append("get(%s) returns %r after set(%s, %r)" % (n, g, n, x))
        return {"kind": "assign", "assigned": {cell}, "expect": {cell: want}, "clause": "assign/set", "extra": extra, "args": {"name": n, "value": x}}
    if k == "set_all_dict":
        names = shape.names if op[1] == "full" else _closed(spec, ([shape.cnames[0] + "r", shape.cnames[0] + "i"] if shape.nc else []) + shape.rnames[-1:])
        d = {n: raw_value(spec, n, depth + (1 if op[1] == "full" else 0)) for n in names}
        vm.set_all(dict(d))
        return {"kind": "assign", "assigned": {spec.cell[n] for n in d}, "expect": {spec.cell[n]: v for n, v in d.items()}, "clause": "assign/set_all_dict", "args": {"dict": d}}
    if k == "set_all_list":
        tv = list(s0["train"])
        vals = [raw_value(spec, n, depth + 1) for n in tv]
        vm.set_all(list(vals))
        return {"kind": "assign", "assigned": {spec.cell[n] for n in tv if n in spec.cell}, "expect": {spec.cell[n]: v for n, v in zip(tv, vals) if n in spec.cell},
                "clause": "assign/set_all_list", "args": {"trainable_vars": tv, "values": vals}}
    if k == "fit_step":
        tv = list(s0["train"])
        xs, exp = [], {}
        for n in tv:
            if n in spec.bound:
                kind, lo, hi = spec.bound[n]
                x = FIT_X[kind] - 0.1 * depth
                exp[spec.cell[n]] = (_bf(kind, lo, hi)[1](x), TOL_B)
            else:
                x = raw_value(spec, n, depth + 2)
                if n in spec.cell:
                    exp[spec.cell[n]] = x
            xs.append(x)
        vm.set_trans_var(list(xs))
        return {"kind": "assign", "assigned": {spec.cell[n] for n in tv if n in spec.cell}, "expect": exp, "clause": "assign/set_all_list",
                "args": {"trainable_vars": tv, "x": xs, "via": "set_trans_var"}}
    if k == "dic_writeback":
        d = vm.get_all_dic()
        extra = []
        if list(d) != list(vm.variables) or set(d) != set(shape.names):
            extra.append("get_all_dic() keys %s, names %s" % (list(d), shape.names))
        for n in shape.names:
            want = s0["mask"].get(n, s0["u"][n])
            if n in d and float(d[n]) != float(want):
                extra.append("get_all_dic()[%s] = %r, value read %r" % (n, float(d[n]), want))
        vm.set_all(d)
        cl = "readback/dic_writeback@" + ("mask_active" if s0["mask"] else "no_mask")
        # every name is written (with the value just read): the expectation is "nothing changes"
        return {"kind": "readback", "assigned": set(spec.members), "expect": {spec.cell[n]: s0["u"][n] for n in shape.names}, "clause": cl, "extra": extra,
                "args": {"read": {n: float(v) for n, v in d.items()}}}
    if k in ("val_writeback", "trans_var_roundtrip"):
        in_fit = k == "trans_var_roundtrip" or op[1]
        vals = vm.get_all_val(in_fit)
        extra = []
        if not in_fit:
            want = [s0["u"][n] for n in s0["train"]]
            if [float(v) for v in vals] != want:
                extra.append("get_all_val() = %s, stored values of trainable_vars %s" % ([float(v) for v in vals], want))
        if k == "trans_var_roundtrip":
            vm.set_trans_var(vals)
        else:
            vm.set_all(vals, val_in_fit=in_fit)
        # bounded names are claimed only with their stored value inside the allowed range
        exp = {spec.cell[n]: s0["u"][n] for n in shape.names}
        if in_fit:
            for n in s0["train"]:
                if n in spec.bound and n in spec.cell:
                    if _in_range(s0["u"][n], *spec.bound[n][1:]):
                        exp[spec.cell[n]] = (s0["u"][n], TOL_B)
                    else:
                        exp.pop(spec.cell[n], None)
        return {"kind": "readback", "assigned": {spec.cell[n] for n in s0["train"] if n in spec.cell}, "expect": exp, "clause": "readback/val_writeback", "extra": extra,
                "others_free": True, "args": {"val_in_fit": bool(in_fit), "values": [float(v) for v in vals]}}
    if k == "reads":
        vm.get_all_val()
        vm.get_all_val(True)
        vm.get_all_dic()
        d = vm.get_all_dic(True)
        extra = []
        if list(d) != list(s0["train"]):
            extra.append("get_all_dic(trainable_only=True) keys %s, trainable_vars %s" % (list(d), s0["train"]))
        _ = vm.trainable_variables
        for v in b.vars.values():
            v()
        return {"kind": "readback", "assigned": set(), "expect": {}, "clause": "setup/reads_change_nothing", "extra": extra, "args": {}}
    if k == "refresh":
        tf.random.set_seed(77 + depth)
        np.random.seed(77 + depth)
        vm.refresh_vars()
        return {"kind": "refresh", "assigned": set(), "args": {"seed": 77 + depth}}
    if k in ("rp2xy_all", "xy2rp_all", "rp2xy", "xy2rp") or (k == "trans_params" and not op[1]):
        if k == "trans_params":
            vm.trans_params(False)
            tg = set(shape.cnames)
        elif k.endswith("_all"):
            getattr(vm, k)()
            tg = set(shape.cnames)
        else:
            getattr(vm, k)(op[1])
            tg = {op[1]} | set(spec.twins[op[1]])
        return {"kind": "switch", "targets": tg, "args": {}}
    if k in ("std_polar_all", "standard_complex") or (k == "trans_params" and op[1]):
        if k == "standard_complex":
            # documented restriction ("TODO complex with constrains"): parameters with ties or bounds and Cartesian ones are not standardised
            tg = [c for c in shape.cnames if s0["flags"].get(c) and all(len(spec.members[spec.cell[c + x]]) == 1 and (c + x) not in spec.bound for x in "ri")]
            vm.standard_complex()
            # which parameters standard_complex re-expresses is its own business (value preservation is claimed for all of them);
            # the range is claimed for the unconstrained polar ones, which it must standardise
            return {"kind": "standardise", "targets": set(shape.cnames), "std_targets": tg, "args": {}}
        if k == "trans_params":
            vm.trans_params(True)
        else:
            vm.std_polar_all()
        return {"kind": "standardise", "targets": set(shape.cnames), "std_targets": list(shape.cnames), "args": {}}
    if k == "mask_enter":
        params = mask_dict(b, depth)
        cm = vm.mask_params(dict(params))
        cm.__enter__()
        stack.append({"kind": "mask", "params": params, "cm": cm, "entry": s0})
        extra = _mask_reads(b, params, s0)  # mask_params REPLACES the mask dictionary for the duration of the block
        return {"kind": "mask_enter", "assigned": set(), "expect": {}, "clause": "scoped/mask_params", "extra": extra, "args": {"params": params}}
    if k == "mask_exit":
        e = stack.pop()
        e["cm"].__exit__(None, None, None)
        extra = []
        if dict(vm.mask_vars) != e["entry"]["mask"]:
            extra.append("mask_vars after exit %s, before entry %s" % (dict(vm.mask_vars), e["entry"]["mask"]))
        extra += _mask_reads(b, e["entry"]["mask"], s0)
        return {"kind": "mask_exit", "assigned": set(), "expect": {}, "clause": "scoped/mask_params", "extra": extra, "args": {}, "popped": e}
    if k == "temp_enter":
        params = temp_dict(b, depth)
        cm = vm.temp_params(dict(params))
        cm.__enter__()
        stack.append({"kind": "temp", "params": params, "cm": cm, "entry": s0})
        cl = "scoped/temp_params@" + ("bounded" if any(n in spec.bound for n in params) else "unbounded")
        return {"kind": "assign", "assigned": {spec.cell[n] for n in params}, "expect": {spec.cell[n]: v for n, v in params.items()}, "clause": cl, "args": {"params": params}}
    if k == "temp_exit":
        e = stack.pop()
        e["cm"].__exit__(None, None, None)
        cl = "scoped/temp_params@" + ("bounded" if any(n in spec.bound for n in e["params"]) else "unbounded")
        return {"kind": "assign", "assigned": {spec.cell[n] for n in e["params"]}, "expect": {spec.cell[n]: e["entry"]["u"][n] for n in e["params"]}, "clause": cl,
                "args": {"restores": {n: e["entry"]["u"][n] for n in e["params"]}}, "popped": e}
    raise KeyError(op)


def _mask_reads(b, mask, s0):
    """inside/outside a mask block read(name) and get_all_dic() give the mask value for masked names, the stored value otherwise"""
    vm = b.vm
    out = []
    d = vm.get_all_dic()
    for n in b.shape.names:
        want = mask.get(n, s0["u"][n])
        r = float(np.asarray(vm.read(n)))
        if r != float(want) or float(d[n]) != float(want):
            out.append("read(%s) = %r, get_all_dic = %r, expected %r (mask %s)" % (n, r, float(d[n]), want, mask))
    return out


def op_clause(b, op, s0, stack):
    """the obligation an operation belongs to (used when the operation itself raises on valid input: that refutes its clause)"""
    k = op[0]
    if k == "set":
        return "assign/set"
    if k == "set_all_dict":
        return "assign/set_all_dict"
    if k in ("set_all_list", "fit_step"):
        return "assign/set_all_list"
    if k == "dic_writeback":
        return "readback/dic_writeback@" + ("mask_active" if s0["mask"] else "no_mask")
    if k in ("val_writeback", "trans_var_roundtrip"):
        return "readback/val_writeback"
    if k == "reads":
        return "setup/reads_change_nothing"
    if k == "refresh":
        return "refresh/only_free_cells"
    if k in ("rp2xy_all", "xy2rp_all", "rp2xy", "xy2rp") or (k == "trans_params" and not op[1]):
        return "coord_switch/value_preserved"
    if k in ("std_polar_all", "standard_complex", "trans_params"):
        return "standardise/value_preserved"
    if k.startswith("mask"):
        return "scoped/mask_params"
    params = temp_dict(b, 0) if k == "temp_enter" else stack[-1]["params"]
    return "scoped/temp_params@" + ("bounded" if any(n in b.spec.bound for n in params) else "unbounded")


def _undo_stack(b, op, info, stack):
    """bring the open-block stack back to what it was before `op` (values are restored by the caller afterwards)"""
    if op[0] in ("mask_enter", "temp_enter"):
        e = stack.pop()
        try:
            e["cm"].gen.close()  # abandon the block without running its exit statements
        except Exception:  # noqa: BLE001
            pass
    elif op[0] in ("mask_exit", "temp_exit"):
        e = info["popped"]
        restore(b, e["entry"])
        cm = getattr(b.vm, e["kind"] + "_params")(dict(e["params"]))
        cm.__enter__()
        e["cm"] = cm
        stack.append(e)


def explore(ctx, chk, b, depth_max, shape_desc):
    """all operation sequences of length <= depth_max from the configured manager; identical states (same stored values, flags, mask, open
    blocks) reached with no more remaining depth are not expanded again (their continuations are explored from the first visit)"""
    stack = []
    visited = {}
    n_steps = [0]
    size = b.shape.rank_size

    def rec(path, s0, z0, left):
        depth = len(path)
        for op in alphabet(b, stack, bool(b.shape.bounds)):
            n_open, top = len(stack), (stack[-1] if stack else None)
            clause = op_clause(b, op, s0, stack)
            try:
                with _quiet():
                    info = apply_op(b, op, depth, stack, s0)
            except Exception as ex:  # noqa: BLE001  the operation is applicable in this state: raising refutes its clause
                msg = "%s raised %s: %s" % (_opname(op), type(ex).__name__, str(ex)[:300])
                p2 = path + [[_opname(op), {}]]
                chk.acc.add(clause, False, {"shape": shape_desc, "operations": p2, "failure": msg, "before_last_operation": _pub(s0, z0)}, (len(p2), size))
                n_steps[0] += 1
                if len(stack) < n_open:
                    _undo_stack(b, (top["kind"] + "_exit",), {"popped": top}, stack)
                elif len(stack) > n_open:
                    _undo_stack(b, (stack[-1]["kind"] + "_enter",), {}, stack)
                restore(b, s0)
                continue
            s1 = observe(b)
            z1 = zvalues(b, s1, (s0, z0))
            n_steps[0] += 1
            p2 = path + [[_opname(op), info.get("args", {})]]

            def wit(why, p2=p2, s0=s0, s1=s1, z0=z0, z1=z1):
                return {"shape": shape_desc, "operations": p2, "failure": why, "before_last_operation": _pub(s0, z0), "after_last_operation": _pub(s1, z1)}

            chk.step(b, op, s0, z0, s1, z1, info, wit, (len(p2), size))
            if left > 1:
                key = _state_key(s1, stack)
                if visited.get(key, 0) < left - 1:
                    visited[key] = left - 1
                    rec(p2, s1, z1, left - 1)
            _undo_stack(b, op, info, stack)
            if op[0].endswith("_exit") or op[0].endswith("_enter"):
                # re-entering a block / abandoning one (closing its generator runs a `finally` restore, if the manager has one) changes the
                # manager: write everything back
                restore(b, s0)
            else:
                restore(b, s0, s1)  # (every deeper step has restored the manager to s1)

    s0 = observe(b)
    visited[_state_key(s0, stack)] = depth_max
    rec([], s0, zvalues(b, s0), depth_max)
    return n_steps[0]


def _opname(op):
    return op[0] if len(op) == 1 else "%s(%s)" % (op[0], ",".join(str(x) for x in op[1:]))


def _pub(s, z):
    return {"stored": dict(s["u"]), "polar_flags": {k: bool(v) for k, v in s["flags"].items()}, "mask_vars": {k: float(v) for k, v in s["mask"].items()},
            "trainable_vars": list(s["train"]), "complex_values": {k: str(v) for k, v in z.items()}}


# ---------------------------------------------------------------------------------------------
# shape catalogues
# ---------------------------------------------------------------------------------------------


def tie_patterns(nc, nr):
    t = [()]
    if nr == 2:
        t += [(("same", ("a", "b")),), (("same_var", "a", "b"),), (("same", ("b", "a")),)]
    if nc >= 1 and nr >= 1:
        t += [(("same", ("a", "c1r")),), (("same", ("c1r", "a")),)]
    if nc == 2:
        t += [(("same_var", "c1", "c2"),), (("same_cplx", ("c1", "c2")),), (("share_r", ("c1", "c2")),), (("r_shareto", "c1", "c2"),),
              (("same", ("c1r", "c2r")),), (("same", ("c1i", "c2i")),), (("share_r", ("c1", "c2")), ("same", ("c1i", "c2i")))]
    if nc >= 1 and nr == 2:
        t += [(("same", ("a", "b")), ("same", ("b", "c1r"))), (("same", ("a", "b")), ("same", ("c1i", "b")))]
    if nc == 2 and nr == 2:
        t += [(("same", ("a", "b")), ("share_r", ("c1", "c2"))), (("same_var", "a", "b"), ("same_var", "c1", "c2")),
              (("share_r", ("c1", "c2")), ("same", ("a", "c2r")))]
        # two EXISTING groups of two merged through heads / followers / head + follower (every member of both groups must end up on one cell)
        for x, y in (("a", "c1r"), ("b", "c2r"), ("a", "c2r"), ("b", "c1r"), ("c1r", "a")):
            t += [(("same", ("a", "b")), ("same", ("c1r", "c2r")), ("same", (x, y)))]
    if nc == 2 and nr == 1:
        t += [(("share_r", ("c1", "c2")), ("same", ("a", "c1i")))]
    return t


def fix_patterns(names):
    for k in range(len(names) + 1):
        for c in itertools.combinations(names, k):
            yield c


BOUND_MENU = [("two", -2.5, 2.5), ("lower", 0.0, None), ("upper", None, 3.0), ("logistic", -1.0, 3.0), ("atan", -3.5, 3.5), ("tanh", 0.0, 2.0),
              ("exp_lower", 0.0, None), ("exp_upper", None, 4.0)]


_WHOLE = (("c1r", "c1i"), ("c2r", "c2i"), ("a", "b"))


def configuration_shapes(tier):
    """the full product of sizes x creation form x fix patterns x tie patterns; a bound (rotating through the menu and the names) on every 24th (quick) /
    12th (thorough) shape (Bound construction solves the inverse symbolically, ~0.1 s)"""
    out = []
    k = 0
    every = 24 if tier == "quick" else 12
    for nc, nr in [(0, 1), (1, 0), (0, 2), (1, 1), (2, 0), (1, 2), (2, 1), (2, 2)]:
        base = Shape(nc, nr)
        for polar0 in ((True, False) if nc else (True,)):
            for ties in tie_patterns(nc, nr):
                for fix in fix_patterns(base.names):
                    if tier == "quick" and nc == 2 and nr >= 1 and len(fix) not in (0, 1, len(base.names)) and fix not in _WHOLE:
                        continue  # quick, two largest sizes: no / one / all names fixed, or one whole parameter (c1, c2, or both reals)
                    k += 1
                    bounds = ()
                    if k % every == 0:
                        kind, lo, hi = BOUND_MENU[(k // every) % len(BOUND_MENU)]
                        bounds = ((base.names[(k // every) % len(base.names)], kind, lo, hi),)
                    out.append(Shape(nc, nr, polar0, fix, ties, bounds, api=k % 2))
    return out


def _S(nc, nr, polar0=True, fix=(), ties=(), bounds=(), api=0):
    return Shape(nc, nr, polar0, fix, ties, bounds, api)


B2 = ("two", -2.5, 2.5)
BLO = ("lower", 0.0, None)
BUP = ("upper", None, 3.0)
BLG = ("logistic", -1.0, 3.0)
PH = ("two", -9.0, 9.0)  # a two-sided range for a phase that contains the harness values


def history_shapes(part, tier):
    """shapes from which ALL operation sequences are explored.  untied: no tie operation; tied: at least one."""
    sh = []
    if part == "untied":
        for fix in ((), ("a",)):
            for bd in ((), (("a",) + B2,), (("a",) + BLO,), (("a",) + BUP,), (("a",) + BLG,)):
                sh.append(_S(0, 1, fix=fix, bounds=bd, api=len(sh) % 2))
        for polar0, fixes in ((True, ((), ("c1r", "c1i"), ("c1r",), ("c1i",))), (False, ((), ("c1r", "c1i")))):
            for fix in fixes:
                sh.append(_S(1, 0, polar0, fix, api=len(sh) % 2))
        if tier != "quick":
            sh.append(_S(1, 0, False, ("c1r",)))
            sh.append(_S(1, 0, False, ("c1i",), api=1))
        sh.append(_S(1, 0, True, (), bounds=(("c1i",) + PH,)))
        sh.append(_S(1, 0, True, (), bounds=(("c1r",) + BLO,)))
        sh.append(_S(0, 2))
        sh.append(_S(0, 2, fix=("a",), api=1))
        sh.append(_S(0, 2, bounds=(("a",) + B2, ("b",) + BLO)))
        sh.append(_S(0, 2, fix=("b",), bounds=(("b",) + BUP,)))
        sh.append(_S(1, 1))
        sh.append(_S(1, 1, fix=("c1r", "c1i"), api=1))
        sh.append(_S(1, 1, fix=("a",)))
        if tier != "quick":
            sh.append(_S(1, 1, fix=("c1r",), api=1))
        sh.append(_S(1, 1, False))
        sh.append(_S(1, 1, bounds=(("a",) + B2,)))
        sh.append(_S(2, 0))
        sh.append(_S(2, 0, fix=("c1r", "c1i"), api=1))
        sh.append(_S(2, 0, False))
        sh.append(_S(2, 2, fix=("c1r", "c1i", "b")))
        if tier != "quick":
            for polar0 in (True, False):
                for fix in fix_patterns(["c1r", "c1i", "a"]):
                    for bd in ((), (("a",) + BLG,), (("c1r",) + BLO,)):
                        sh.append(_S(1, 1, polar0, fix, bounds=bd, api=len(sh) % 2))
            for fix in fix_patterns(["c1r", "c1i", "c2r", "c2i"]):
                sh.append(_S(2, 0, len(fix) % 2 == 0, fix, api=len(sh) % 2))
            for fix in fix_patterns(["a", "b"]):
                for bd in ((), (("a",) + BLO,), (("b",) + B2,), (("a",) + BUP, ("b",) + BLG)):
                    sh.append(_S(0, 2, fix=fix, bounds=bd, api=len(sh) % 2))
            sh.append(_S(2, 2))
            sh.append(_S(2, 1, fix=("c2i",), bounds=(("a",) + B2,)))
            sh.append(_S(1, 2, False, fix=("b",)))
    else:
        for ties in tie_patterns(0, 2)[1:]:
            sh.append(_S(0, 2, ties=ties))
        sh.append(_S(0, 2, fix=("a",), ties=tie_patterns(0, 2)[1]))
        sh.append(_S(0, 2, fix=("b",), ties=tie_patterns(0, 2)[2], api=1))
        sh.append(_S(0, 2, ties=tie_patterns(0, 2)[1], bounds=(("a",) + B2,)))
        sh.append(_S(0, 2, ties=tie_patterns(0, 2)[1], bounds=(("b",) + BLO,), api=1))
        sh.append(_S(1, 1, ties=(("same", ("a", "c1r")),)))
        sh.append(_S(1, 1, fix=("a",), ties=(("same", ("c1r", "a")),)))
        for ties in tie_patterns(2, 0)[1:]:
            sh.append(_S(2, 0, ties=ties, api=len(sh) % 2))
        sh.append(_S(2, 0, False, ties=(("share_r", ("c1", "c2")),)))
        sh.append(_S(2, 0, fix=("c1r",), ties=(("r_shareto", "c1", "c2"),), api=1))
        sh.append(_S(2, 0, fix=("c2r", "c2i"), ties=(("same_var", "c1", "c2"),)))
        sh.append(_S(2, 0, ties=(("share_r", ("c1", "c2")),), bounds=(("c1r",) + BLO,)))
        sh.append(_S(2, 1, ties=(("share_r", ("c1", "c2")), ("same", ("a", "c1i")))))
        sh.append(_S(2, 2, ties=(("same", ("a", "b")), ("share_r", ("c1", "c2")))))
        if tier != "quick":
            for ties in tie_patterns(2, 0)[1:]:
                for fix in (("c1r",), ("c2i",), ("c1r", "c1i"), ("c1i", "c2i")):
                    sh.append(_S(2, 0, len(sh) % 2 == 0, fix, ties, api=len(sh) % 2))
            for ties in tie_patterns(1, 2)[1:]:
                sh.append(_S(1, 2, ties=ties, api=len(sh) % 2))
                sh.append(_S(1, 2, False, fix=("b",), ties=ties, api=len(sh) % 2))
            for ties in tie_patterns(2, 2)[-6:]:
                sh.append(_S(2, 2, ties=ties, api=len(sh) % 2))
            for ties in tie_patterns(2, 1)[1:]:
                sh.append(_S(2, 1, ties=ties, api=len(sh) % 2))
    return sh


# ---------------------------------------------------------------------------------------------
# groups
# ---------------------------------------------------------------------------------------------

_FUNCS_CFG = ["variable:VarsManager.add_real_var", "variable:VarsManager.add_complex_var", "variable:VarsManager.set_fix", "variable:VarsManager.set_same",
              "variable:VarsManager.set_share_r", "variable:VarsManager.set_bound", "variable:Variable.fixed", "variable:Variable.freed", "variable:Variable.sameas",
              "variable:Variable.r_shareto", "variable:Variable.set_bound", "variable:VarsManager.get_all_dic", "variable:VarsManager.get_all_val"]
_FUNCS_HIST = ["variable:VarsManager.set", "variable:VarsManager.get", "variable:VarsManager.read", "variable:VarsManager.set_all", "variable:VarsManager.get_all_dic",
               "variable:VarsManager.get_all_val", "variable:VarsManager.refresh_vars", "variable:VarsManager.rp2xy", "variable:VarsManager.xy2rp",
               "variable:VarsManager.rp2xy_all", "variable:VarsManager.xy2rp_all", "variable:VarsManager.std_polar", "variable:VarsManager.std_polar_all",
               "variable:VarsManager.standard_complex", "variable:VarsManager.trans_params", "variable:VarsManager.set_trans_var", "variable:VarsManager.mask_params",
               "variable:VarsManager.temp_params", "variable:Variable.__call__", "variable:VarsManager.set_same", "variable:VarsManager.set_share_r",
               "variable:VarsManager.set_fix"]
_ALPHABET = ("{set(name,v) for every name, set_all(dict) full and partial, set_all(list), set_trans_var(list) (fit step), get_all_dic()->set_all, get_all_val()->set_all "
             "(raw; in-fit and set_trans_var round trip when bounds exist), pure reads, refresh_vars (seeded), rp2xy_all, xy2rp_all, rp2xy(c), xy2rp(c), std_polar_all, "
             "standard_complex, trans_params(True/False), mask_params enter/exit, temp_params enter/exit (LIFO, one open block per kind)}")


@group(["C16"], "iface.C16/configuration_phase", _FUNCS_CFG, env="tf", kind="B",
       bound="every manager shape built on the real classes in the order create -> fix/free -> tie -> bound: sizes (complex,real) in {(0,1),(1,0),(0,2),(1,1),(2,0),(1,2),(2,1),(2,2)}, "
             "created polar/Cartesian, ALL fix patterns over the real-level names (quick, sizes (2,1),(2,2): none / one / all names or one whole parameter), all tie patterns of tie_patterns() "
             "(set_same real/complex, Variable.sameas, set_share_r, r_shareto, radius only, phase only, real tied to a component, group merges), both API spellings, "
             "a bound of the 8-entry menu on every 24th (quick) / 12th (thorough) shape; then the pure read operations",
       assumes=["a tie of a fixed with a free parameter makes the whole group fixed (comment in VarsManager.set_same)"])
def c16_configuration(ctx):
    acc = Acc(ctx)
    chk = Checker(ctx, acc)
    shapes = configuration_shapes(ctx.tier)
    for i, shape in enumerate(shapes):
        b = build(ctx, shape, seed=ctx.seed + i)
        desc = shape.describe()
        s0 = observe(b)
        z0 = zvalues(b, s0)
        rank = (0, shape.size)

        def wit(why, desc=desc, s0=s0, z0=z0):
            return {"shape": desc, "operations": [], "failure": why, "state_after_configuration": _pub(s0, z0)}

        chk.tied(b, s0, z0, "setup/tied_share_value", wit, rank)
        chk.count_once(b, s0, "setup/free_count_once", wit, rank)
        bad = None
        try:
            with _quiet():
                info = apply_op(b, ("reads",), 0, [], s0)
            s1 = observe(b)
            if s1 != s0:
                bad = "state changed by read operations: %s -> %s" % (_pub(s0, z0), _pub(s1, zvalues(b, s1)))
            for e in info["extra"]:
                bad = bad or e
            with _quiet():
                info = apply_op(b, ("val_writeback", False), 0, [], s1)  # get_all_val() order/values
                info2 = apply_op(b, ("dic_writeback",), 0, [], s1)
            for e in info["extra"] + info2["extra"]:
                bad = bad or e
            if observe(b) != s0:
                bad = bad or "state changed by writing back what was read"
        except Exception as ex:  # noqa: BLE001  reading and writing back must not raise
            bad = "read / write-back raised %s: %s" % (type(ex).__name__, str(ex)[:300])
        acc.add("setup/reads_change_nothing", bad is None, lambda bad=bad: wit(bad), rank)
        ctx.count(key=shape.key(), sample=desc)
    keep = {"setup/tied_share_value", "setup/free_count_once", "setup/reads_change_nothing"}
    acc.items = {k: v for k, v in acc.items.items() if k in keep}
    acc.flush()


def _run_histories(ctx, part):
    acc = Acc(ctx)
    chk = Checker(ctx, acc)
    shapes = history_shapes(part, ctx.tier)
    total = 0
    for i, shape in enumerate(shapes):
        depth = 3
        if ctx.tier != "quick" and shape.size <= 3 and i < 40:
            depth = 4
        b = build(ctx, shape, seed=ctx.seed + i)
        desc = shape.describe()
        n = explore(ctx, chk, b, depth, desc)
        total += n
        ctx.count(key=shape.key(), sample=dict(desc, sequences_up_to=depth, steps_checked=n))
    ctx.evaluations += total - len(shapes)
    for k in list(acc.items):
        if k.startswith("setup/") and k != "setup/reads_change_nothing":
            del acc.items[k]
    vac = {k for k in acc.items if k.endswith(PARTIAL) or k.endswith("@bounded")} if part == "untied" else set()
    acc.flush(allow_vacuous=vac)


_HB = ("shapes of history_shapes('%s', tier) [%s]; from each ALL operation sequences of length <= 3 (thorough: <= 4 for the first 40 shapes with <= 3 real-level names) over the "
       "alphabet " + _ALPHABET + "; argument values from a fixed table (negative radii, phases outside [-pi,pi), values inside the allowed range for bounded cells); a state "
       "(stored values to 1e-10, flags, mask, open blocks) reached again with no more remaining depth is not expanded twice; all clauses evaluated after EVERY step")


@group(["C16"], "iface.C16/histories_untied", _FUNCS_HIST, env="tf", kind="B",
       bound=_HB % ("untied", "no tie operation: 1 real x {free,fixed} x {no bound, two-sided, lower, upper, logistic}; 1 complex polar x 4 fix patterns, Cartesian x 2, bounded phase, "
                              "bounded radius; 2 reals; 1 complex + 1 real (5 variants); 2 complex (3 variants); 2 complex + 2 real; thorough adds all fix patterns x bounds"),
       assumes=["standard_complex standardises only polar parameters without ties and bounds (its TODO comment); checked for those"])
def c16_hist_untied(ctx):
    _run_histories(ctx, "untied")


@group(["C16"], "iface.C16/histories_tied", _FUNCS_HIST, env="tf", kind="B",
       bound=_HB % ("tied", "at least one tie: 2 reals tied (3 spellings, fixed member, bound on head / non-head); real tied to a radius; 2 complex with every tie pattern "
                            "(sameas, set_same cplx, set_share_r, r_shareto, radius only, phase only, share_r + phase), Cartesian creation, fixed member, bounded shared radius; "
                            "2 complex + 1 real, 2 complex + 2 real with two groups; thorough adds fix patterns and the (1,2),(2,1),(2,2) tie patterns"),
       assumes=["mask dictionaries are closed under ties (a mask naming one member of a tied group names all of them)"])
def c16_hist_tied(ctx):
    _run_histories(ctx, "tied")


# ---------------------------------------------------------------------------------------------
# Bound
# ---------------------------------------------------------------------------------------------

BOUND_CASES = [
    ("two", -2.5, 2.5), ("two", 0.0, 1.0), ("two", 1.5, 1.9), ("two", -1e3, 2e3), ("two", 2.0, 2.0 + 1e-3),
    ("lower", 0.0, None), ("lower", -3.2, None), ("lower", 1e3, None),
    ("upper", None, 3.0), ("upper", None, -0.5), ("upper", None, 1e3),
    ("logistic", -1.0, 3.0), ("logistic", 0.0, 1.0), ("atan", -3.5, 3.5), ("atan", 2.0, 5.0), ("tanh", 0.0, 2.0), ("tanh", -4.0, -1.0),
    ("exp_lower", 0.0, None), ("exp_lower", -2.0, None), ("exp_upper", None, 4.0),
]


@group(["C16"], "iface.C16/bound_transform", ["variable:Bound.__init__", "variable:Bound.get_func", "variable:Bound.get_x2y", "variable:Bound.get_y2x",
                                               "variable:Bound.get_dydx", "variable:Bound.get_d2ydx2"], env="tf", kind="B",
       bound="Bound(a, b, func) for the documented default functions (two-sided 5 ranges, lower 3, upper 3) and custom expressions logistic, atan, tanh (two-sided), a+exp(x), "
             "b-exp(-x) (one-sided); y on a 41-point grid over the allowed range (closed for the defaults, open interior for the customs; one-sided: up to 50 from the bound), "
             "x on a 41 (quick) / 201 (thorough) point grid in [-6,6] plus seeded points",
       assumes=["custom expressions are strictly monotone maps of the real line onto the open allowed range"])
def c16_bound(ctx):
    V = ctx.mod("variable")
    acc = Acc(ctx)
    cl = {
        "bound/y_x_y": "get_x2y(get_y2x(y)) == y for y in the allowed range (1e-12*(1+|y|)); outside it y is first moved to the nearest end (docstring of get_y2x)",
        "bound/x_y_x": "get_x2y(get_y2x(get_x2y(x))) == get_x2y(x) for every real x, and get_y2x(get_x2y(x)) == x on the principal domain (defaults: |x| <= pi/2 two-sided, "
                       "x >= 0 one-sided; customs: every x), 1e-9*(1+|x|)",
        "bound/range": "a <= get_x2y(x) <= b for every real x (up to 1e-12*(1+|bound|) of evaluation rounding) and get_x2y(x) equals the documented function",
        "bound/slope": "get_dydx(x) equals the analytic derivative of the documented function and a central finite difference of get_x2y (rtol 1e-6)",
        "bound/second_derivative": "get_d2ydx2(x) equals the analytic second derivative and a central finite difference of get_dydx (rtol 1e-6)",
    }
    for k, c in cl.items():
        acc.declare(k, c)
    nx = 41 if ctx.tier == "quick" else 201
    rs = np.random.RandomState(ctx.seed + 16)
    for kind, lo, hi in BOUND_CASES:
        func, f, df, d2f = _bf(kind, lo, hi)
        default = func is None
        with _quiet():
            bnd = V.Bound(lo, hi, func=func)
        desc = {"lower": lo, "upper": hi, "func": func or "default: " + bnd.func}
        # y grid
        if lo is not None and hi is not None:
            ys = list(np.linspace(lo, hi, 41)) if default else list(np.linspace(lo, hi, 43)[1:-1])
        elif lo is not None:
            ys = [lo + t for t in np.concatenate([[0.0] if default else [1e-6], np.logspace(-6, math.log10(50), 40)])]
        else:
            ys = [hi - t for t in np.concatenate([[0.0] if default else [1e-6], np.logspace(-6, math.log10(50), 40)])]
        for y in ys:
            y = float(y)
            x = bnd.get_y2x(y)
            y2 = bnd.get_x2y(x)
            ok = math.isfinite(x) and abs(y2 - y) <= TOL_B * (1 + abs(y))
            ctx.count(key=("yxy", kind, lo, hi, y))
            acc.add("bound/y_x_y", ok, {"bound": desc, "y": y, "get_y2x(y)": x, "get_x2y(get_y2x(y))": y2}, (0, 0))
        for y, want in ([(lo - 0.7, lo)] if lo is not None and default else []) + ([(hi + 0.7, hi)] if hi is not None and default else []):
            x = bnd.get_y2x(y)
            y2 = bnd.get_x2y(x)
            acc.add("bound/y_x_y", abs(y2 - want) <= TOL_B * (1 + abs(want)), {"bound": desc, "y_outside": y, "get_x2y(get_y2x(y))": y2, "nearest_end": want}, (0, 0))
        xs = list(np.linspace(-6, 6, nx)) + list(rs.uniform(-6, 6, 8)) + [0.0, math.pi / 2, -math.pi / 2, 1e-8]
        for x in xs:
            x = float(x)
            ctx.count(key=("x", kind, lo, hi, x))
            y = bnd.get_x2y(x)
            acc.add("bound/range", _in_range(y, lo, hi, slack=TOL_B) and abs(y - f(x)) <= TOL_B * (1 + abs(y)), {"bound": desc, "x": x, "get_x2y(x)": y, "documented f(x)": f(x)}, (0, 0))
            # one-sided exponentials saturate in float64 far from the bound: inverse claimed where y is representably inside the range
            if _in_range(y, lo, hi, strict=not default):
                xb = bnd.get_y2x(y)
                yb = bnd.get_x2y(xb)
                ok = abs(yb - y) <= TOL_B * (1 + abs(y))
                principal = (abs(x) <= math.pi / 2 if kind == "two" else x >= 0) if default else True
                if principal and ok:
                    # conditioning of the inverse: |dx| = |dy|/|f'(x)|; claimed where |f'| is not tiny
                    sl = abs(df(x))
                    if sl > 1e-3 * max(1.0, abs(f(x)) * 1e-3):
                        ok = abs(xb - x) <= 1e-9 * (1 + abs(x)) * max(1.0, (1 + abs(y)) / sl)
                acc.add("bound/x_y_x", ok, {"bound": desc, "x": x, "y=get_x2y(x)": y, "get_y2x(y)": xb, "get_x2y(get_y2x(y))": yb}, (0, 0))
            h = 1e-5 * max(1.0, abs(x))
            fd = (bnd.get_x2y(x + h) - bnd.get_x2y(x - h)) / (2 * h)
            g = bnd.get_dydx(x)
            scale = max(abs(df(x)), 1e-3 * (abs(hi - lo) if (lo is not None and hi is not None) else 1.0))
            ok = abs(g - df(x)) <= RTOL_SLOPE * scale and abs(g - fd) <= RTOL_SLOPE * scale + 1e-9 * (1 + abs(y)) / h * 1e-3
            acc.add("bound/slope", ok, {"bound": desc, "x": x, "get_dydx(x)": g, "analytic": df(x), "finite_difference": fd}, (0, 0))
            fd2 = (bnd.get_dydx(x + h) - bnd.get_dydx(x - h)) / (2 * h)
            g2 = bnd.get_d2ydx2(x)
            scale2 = max(abs(d2f(x)), 1e-3 * (abs(hi - lo) if (lo is not None and hi is not None) else 1.0))
            ok = abs(g2 - d2f(x)) <= RTOL_SLOPE * scale2 and abs(g2 - fd2) <= RTOL_SLOPE * scale2 + 1e-9
            acc.add("bound/second_derivative", ok, {"bound": desc, "x": x, "get_d2ydx2(x)": g2, "analytic": d2f(x), "finite_difference": fd2}, (0, 0))
    acc.flush()

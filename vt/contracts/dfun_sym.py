"""Symbolic contracts on tf_pwa/dfun.py (small_d_matrix, exp_i, D_matrix_conj) and tf_pwa/angle.py SU2M.

The float weight table of small_d_weight is read as exact algebraic numbers +-sqrt(p/q) (each float is within 4 ulp of
that value: ground table contract `dfun.small_d_weight/wigner_exact` of C12); the algebra is then exact for ALL angles.
Convention (pinned against sympy's Rotation.d by the table contract): d^j_{m1 m2}(b) = <j m1| exp(-i b J_y) |j m2>,
rows/columns ascending -j..j.
"""
import math
from fractions import Fraction

from vt.core import terms as tm
from vt.core.oblig import group


def s_angle(rng):
    return [rng.uniform(-3.1, 3.1)]


def s_beta(rng):
    return [rng.uniform(0.05, 3.09)]


def _fact(n):
    return math.factorial(n)


def wigner_d_spec(tf, j2, a, b, beta):
    """d^j_{m1 m2}(beta) by Wigner's formula; j2 = 2j, m1 = -j + a, m2 = -j + b.  beta: tensor shape (1,)"""
    # work with doubled integers to stay in integers: J = j2, M1 = 2 m1, M2 = 2 m2
    M1 = -j2 + 2 * a
    M2 = -j2 + 2 * b
    jpm2, jmm2, jpm1, jmm1 = (j2 + M2) // 2, (j2 - M2) // 2, (j2 + M1) // 2, (j2 - M1) // 2
    c = tf.cos(beta / 2.0)
    s = tf.sin(beta / 2.0)
    pref = Fraction(_fact(jpm2) * _fact(jmm2) * _fact(jpm1) * _fact(jmm1))
    total = None
    d12 = (M1 - M2) // 2  # m1 - m2
    for k in range(0, j2 + 1):
        x1, x2, x3, x4 = jpm2 - k, k, jmm1 - k, k + d12
        if min(x1, x2, x3, x4) < 0:
            continue
        den = _fact(x1) * _fact(x2) * _fact(x3) * _fact(x4)
        sign = -1 if (k + d12) % 2 else 1
        # coefficient sign * sqrt(pref)/den  as an exact algebraic constant
        coef = tm.mul(tm.sqrt_const(pref), tm.const(Fraction(sign, den)))
        pc = j2 - 2 * k - d12  # power of cos
        ps = 2 * k + d12  # power of sin
        term = _const_times(tf, coef, (c ** pc if pc else 1.0) * (s ** ps if ps else 1.0))
        total = term if total is None else total + term
    return total if total is not None else tf.zeros_like(beta)


def _const_times(tf, coef_term, x):
    """multiply a tensor (or float) by an exact algebraic constant term; natively the constant is evaluated in floats"""
    from vt.core import loader

    if loader.mode() == "shadow":
        from vt.core import shim_tf

        return shim_tf.STensor(shim_tf._arr(coef_term)) * x
    return float(tm.eval_float([coef_term], {})[0]) * x


def _j2_range(ctx):
    return range(0, 5) if ctx.tier == "quick" else range(0, 9)


def _mk_small_d(j2):
    def g(ctx):
        tf = ctx.tf
        dfun = ctx.mod("dfun")
        beta = ctx.real("beta", (1,), s_beta)
        with tm.float_recogniser(tm.sqrt_rational_recogniser()):
            d = dfun.small_d_matrix(beta, j2)  # (1, j2+1, j2+1)
        n = j2 + 1
        for a in range(n):
            for b in range(n):
                ctx.eq("wigner[%d][%d]" % (a, b), d[:, a, b], wigner_d_spec(tf, j2, a, b, beta),
                       clause="small_d_matrix(beta, 2j=%d)[m1=%s][m2=%s] == Wigner's formula, all beta" % (j2, Fraction(-j2 + 2 * a, 2), Fraction(-j2 + 2 * b, 2)))
        for a in range(n):
            for b in range(a, n):
                acc = d[:, a, 0] * d[:, b, 0]
                for k in range(1, n):
                    acc = acc + d[:, a, k] * d[:, b, k]
                ctx.eq("orthogonal[%d][%d]" % (a, b), acc, 1.0 if a == b else 0.0, clause="sum_k d[m1][k] d[m1'][k] == delta  (d d^T = 1), all beta")

    return g


def _mk_small_d_special(j2):
    def g(ctx):
        tf = ctx.tf
        dfun = ctx.mod("dfun")
        n = j2 + 1
        zero = tf.zeros((1,), dtype=tf.float64)
        pi = tf.constant([math.pi], dtype=tf.float64)
        with tm.float_recogniser(tm.sqrt_rational_recogniser()):
            d0 = dfun.small_d_matrix(zero, j2)
            dpi = dfun.small_d_matrix(pi, j2)
        import numpy as np

        eye = np.eye(n)
        # d^j_{m1 m2}(pi) = (-1)^(j - m2) delta_{m1, -m2}
        anti = np.zeros((n, n))
        for b in range(n):
            anti[n - 1 - b, b] = (-1) ** ((j2 - (-j2 + 2 * b)) // 2)
        ctx.eq("d(0)", d0[0], tf.constant(eye, dtype=tf.float64), clause="d^j(0) == identity", num_tol=1e-12)
        ctx.eq("d(pi)", dpi[0], tf.constant(anti, dtype=tf.float64), clause="d^j_{m1 m2}(pi) == (-1)^(j-m2) delta_{m1,-m2}", num_tol=1e-12)

    return g


def _mk_small_d_group(j2):
    def g(ctx):
        tf = ctx.tf
        dfun = ctx.mod("dfun")
        b1 = ctx.real("beta1", (1,), s_beta)
        b2 = ctx.real("beta2", (1,), s_beta)
        with tm.float_recogniser(tm.sqrt_rational_recogniser()):
            d1 = dfun.small_d_matrix(b1, j2)
            d2 = dfun.small_d_matrix(b2, j2)
            d12 = dfun.small_d_matrix(b1 + b2, j2)
        n = j2 + 1
        for a in range(n):
            for b in range(n):
                acc = d1[:, a, 0] * d2[:, 0, b]
                for k in range(1, n):
                    acc = acc + d1[:, a, k] * d2[:, k, b]
                ctx.eq("group[%d][%d]" % (a, b), acc, d12[:, a, b], clause="d^j(b1) d^j(b2) == d^j(b1+b2), all b1, b2")

    return g


def _mk_D(j2):
    def g(ctx):
        tf = ctx.tf
        dfun = ctx.mod("dfun")
        al = ctx.real("alpha", (1,), s_angle)
        be = ctx.real("beta", (1,), s_beta)
        ga = ctx.real("gamma", (1,), s_angle)
        with tm.float_recogniser(tm.sqrt_rational_recogniser()):
            D = dfun.D_matrix_conj(al, be, ga, j2)  # (1, n, n) complex
        n = j2 + 1
        for a in range(n):
            for b in range(n):
                m1 = Fraction(-j2 + 2 * a, 2)
                m2 = Fraction(-j2 + 2 * b, 2)
                d = wigner_d_spec(tf, j2, a, b, be)
                ph = float(m1) * al + float(m2) * ga
                ctx.eq("entry[%d][%d].re" % (a, b), tf.math.real(D[:, a, b]), tf.cos(ph) * d,
                       clause="Re D*_{m1 m2} == cos(m1 alpha + m2 gamma) d^j_{m1 m2}(beta)")
                ctx.eq("entry[%d][%d].im" % (a, b), tf.math.imag(D[:, a, b]), tf.sin(ph) * d,
                       clause="Im D*_{m1 m2} == sin(m1 alpha + m2 gamma) d^j_{m1 m2}(beta)")
        for a in range(n):
            for b in range(a, n):
                acc = D[:, a, 0] * tf.math.conj(D[:, b, 0])
                for k in range(1, n):
                    acc = acc + D[:, a, k] * tf.math.conj(D[:, b, k])
                ctx.eq("unitary[%d][%d].re" % (a, b), tf.math.real(acc), 1.0 if a == b else 0.0, clause="D D^dagger == 1 (real part)")
                ctx.eq("unitary[%d][%d].im" % (a, b), tf.math.imag(acc), 0.0, clause="D D^dagger == 1 (imaginary part)")

    return g


for _j2 in range(0, 9):
    _tiers = ("quick", "thorough")
    group(["C12", "C01", "C04"] if _j2 <= 4 else ["C12"], "dfun.small_d_matrix/2j=%d" % _j2, ["dfun:small_d_matrix", "dfun:small_d_weight"], tiers=_tiers, cost=1 + _j2,
          assumes=["float weights of small_d_weight read as exact sqrt(p/q) (justified to 4 ulp by the ground table contract of C12)"])(_mk_small_d(_j2))
    group(["C12"], "dfun.small_d_matrix/special/2j=%d" % _j2, ["dfun:small_d_matrix"], tiers=_tiers)(_mk_small_d_special(_j2))
    _tg = ("quick", "thorough") if _j2 <= 6 else ("thorough",)
    if _j2 <= 8:
        group(["C12"], "dfun.small_d_matrix/group_law/2j=%d" % _j2, ["dfun:small_d_matrix"], tiers=_tg, cost=2 + 2 * _j2)(_mk_small_d_group(_j2))
    group(["C12", "C01", "C02"] if _j2 <= 3 else ["C12"], "dfun.D_matrix_conj/2j=%d" % _j2, ["dfun:D_matrix_conj", "dfun:exp_i"],
          tiers=("quick", "thorough") if _j2 <= 6 else ("thorough",), cost=2 + 2 * _j2)(_mk_D(_j2))


@group(["C12"], "dfun.get_D_matrix_lambda/no_rotation", ["dfun:get_D_matrix_lambda"], env="shim", kind="G",
       bound="2j = 0..8; helicity lists: full range, restricted (ends only, without 0), reversed and shuffled orders; la and lb chosen independently")
def d_matrix_lambda_none(ctx):
    """with angle=None (no rotation) the matrix is the Kronecker delta ON THE HELICITY VALUES, whatever lists are passed"""
    import numpy as np

    dfun = ctx.mod("dfun")
    bad = None
    n = 0
    for j2 in range(0, 9):
        j = j2 / 2
        full = [-j + k for k in range(j2 + 1)]
        variants = [full, full[::-1], [full[0], full[-1]], [h for h in full if h != 0] or full, full[1:] or full]
        sh = list(full)
        ctx.rng.shuffle(sh)
        variants.append(sh)
        for la in variants:
            for lb in variants:
                n += 1
                ctx.count(key=(j2, tuple(la), tuple(lb)))
                got = np.asarray(dfun.get_D_matrix_lambda(None, j, tuple(la), tuple(lb)))
                want = np.array([[1.0 if a == b else 0.0 for b in lb] for a in la])
                if got.shape != (1, len(la), len(lb)) or not np.array_equal(got[0], want):
                    bad = bad or {"2j": j2, "la": la, "lb": lb, "got": np.asarray(got).tolist()}
    ctx.check("kronecker_delta_on_values", bad is None, clause="get_D_matrix_lambda(None, j, la, lb)[0][i][k] == delta(la[i], lb[k]) for all helicity lists (%d combinations)" % n,
              detail=str(bad), witness=bad)


@group(["C12"], "dfun.cached_tables/unchanged_by_use", ["dfun:small_d_weight", "dfun:_tuple_delta_D_trans", "dfun:_tuple_delta_D_index", "dfun:small_d_matrix",
                                                       "dfun:D_matrix_conj", "dfun:get_D_matrix_lambda", "dfun:Dfun_delta_v2", "dfun:Dfun_delta"],
       env="tf", kind="G", cost=1,
       bound="2j = 0..8; the lru_cache'd tables small_d_weight(2j), _tuple_delta_D_trans / _tuple_delta_D_index for full helicity lists; compared (bitwise) before and after "
             "the public functions that consume them were evaluated twice",
       assumes=["real TensorFlow process (the consumers are tensor code)"])
def cached_tables_pure(ctx):
    """functools.lru_cache hands every caller the SAME mutable object: a consumer that modifies it in place (reverse, +=, masked assignment)
    corrupts every later evaluation in the process.  (The analogous defect was seeded for the Blatt-Weisskopf coefficient list.)"""
    import copy

    import numpy as np

    dfun = ctx.mod("dfun")
    tf = ctx.mod("tensorflow_wrapper").tf
    bad = None
    ang = {"alpha": tf.constant([0.3, -1.2], dtype=tf.float64), "beta": tf.constant([1.1, 2.5], dtype=tf.float64), "gamma": tf.constant([-0.7, 0.4], dtype=tf.float64)}
    for j2 in range(9):
        j = j2 / 2 if j2 % 2 else j2 // 2
        hel = tuple(-j + k for k in range(j2 + 1))
        lb = hel[: min(3, len(hel))]
        snap = {"small_d_weight": copy.deepcopy(dfun.small_d_weight(j2)),
                "_tuple_delta_D_trans": copy.deepcopy(dfun._tuple_delta_D_trans(j, hel, lb, lb)),
                "_tuple_delta_D_index": copy.deepcopy(dfun._tuple_delta_D_index(j, hel, lb, lb))}
        for _ in range(2):
            dfun.small_d_matrix(ang["beta"], j2)
            dfun.D_matrix_conj(ang["alpha"], ang["beta"], ang["gamma"], j2)
            dfun.get_D_matrix_lambda(dict(ang), j, hel, lb, lb)
            dfun.get_D_matrix_lambda(dict(ang), j, hel, hel)
            dfun.Dfun_delta_v2(dfun.D_matrix_conj(ang["alpha"], ang["beta"], ang["gamma"], j2), j, hel, lb, lb)
        now = {"small_d_weight": dfun.small_d_weight(j2), "_tuple_delta_D_trans": dfun._tuple_delta_D_trans(j, hel, lb, lb),
               "_tuple_delta_D_index": dfun._tuple_delta_D_index(j, hel, lb, lb)}
        for k in snap:
            ctx.count(key=(j2, k))
            same = np.array_equal(np.asarray(snap[k], dtype=object if isinstance(snap[k], (list, tuple)) and snap[k] and isinstance(snap[k][0], (list, tuple)) else None),
                                  np.asarray(now[k], dtype=object if isinstance(now[k], (list, tuple)) and now[k] and isinstance(now[k][0], (list, tuple)) else None))
            if not same and bad is None:
                bad = {"2j": j2, "table": k}
    ctx.check("tables_unchanged", bad is None, clause="the cached tables of dfun.py hold the same values after their consumers ran as before (no in-place modification of a cached object)",
              detail=str(bad), witness=bad)


def _hel_variants(j2, rng):
    j = Fraction(j2, 2)
    full = [j - j2 + k for k in range(j2 + 1)]
    out = [full, full[::-1], [full[0], full[-1]], [h for h in full if h != 0] or full, full[1:] or full, full[:-1] or full]
    sh = list(full)
    rng.shuffle(sh)
    out.append(sh)
    if len(full) > 2:
        out.append(full[1:] + full[:1])  # rotated: full length, not ascending
    uniq = []
    for v in out:
        if v not in uniq:
            uniq.append(v)
    return uniq


def _mk_lambda_selection(j2):
    def g(ctx):
        """for an ARBITRARY complex matrix X in the place of conj D^j (handed over through the cache slot of the angle dictionary):
        get_D_matrix_lambda(angle, j, la, lb)[e, i, k] == X[e, la_i, lb_k]  and  (.., lc)[e, i, k, l] == X[e, la_i, lb_k - lc_l] or 0 when |lb_k - lc_l| > j,
        addressed by helicity VALUE, for every ordering / sub-list of helicities"""
        import numpy as np

        from vt.core import shim_tf as shim

        dfun = ctx.mod("dfun")
        n = j2 + 1
        X = shim.sym_complex_tensor("X", (1, n, n))
        jf = j2 / 2 if j2 % 2 else j2 // 2
        j = Fraction(j2, 2)
        as_num = (lambda h: float(h) if j2 % 2 else int(h))
        variants = _hel_variants(j2, ctx.rng)
        xa = X.a
        for with_lc in (False, True):
            bad = None
            cnt = 0
            for la in variants:
                for lb in variants:
                    lcs = [None] if not with_lc else [v for v in variants[:3]]
                    for lc in lcs:
                        angle = {"alpha": shim.sym_tensor("al", (1,)), "beta": shim.sym_tensor("be", (1,)), "gamma": shim.sym_tensor("ga", (1,)), "D_matrix_%d" % j2: X}
                        args = [angle, jf, tuple(as_num(h) for h in la), tuple(as_num(h) for h in lb)]
                        if lc is not None:
                            args.append(tuple(as_num(h) for h in lc))
                        got = shim._arr(dfun.get_D_matrix_lambda(*args))
                        want_shape = (1, len(la), len(lb)) + ((len(lc),) if lc is not None else ())
                        cnt += 1
                        if got.shape != want_shape:
                            bad = bad or {"2j": j2, "la": [str(h) for h in la], "lb": [str(h) for h in lb], "lc": None if lc is None else [str(h) for h in lc],
                                          "shape": list(got.shape), "expected_shape": list(want_shape)}
                            continue
                        for i, a in enumerate(la):
                            for k, b in enumerate(lb):
                                for l, c in enumerate(lc if lc is not None else [Fraction(0)]):
                                    m2 = b - c
                                    e = got[(0, i, k) + ((l,) if lc is not None else ())]
                                    if abs(m2) > j:
                                        ok = (isinstance(e, tm.C) and e.re is tm.ZERO and e.im is tm.ZERO) or e is tm.ZERO or e == 0
                                    else:
                                        w = xa[0, int(a + j), int(m2 + j)]
                                        ok = isinstance(e, tm.C) and e.re is w.re and e.im is w.im
                                    if not ok and bad is None:
                                        bad = {"2j": j2, "la": [str(h) for h in la], "lb": [str(h) for h in lb], "lc": None if lc is None else [str(h) for h in lc],
                                               "element": [i, k, l], "helicities": [str(a), str(b), str(c)], "got": str(e)[:120]}
            ctx.check("selection_by_value/%s" % ("la_lb_lc" if with_lc else "la_lb"), bad is None,
                      clause="get_D_matrix_lambda(angle, j, la, lb%s) returns, for every element, the entry of the D-matrix addressed by the helicity VALUES "
                             "(m1 = la_i, m2 = lb_k%s; zero when |m2| > j), for full, reversed, rotated, shuffled and restricted helicity lists (%d list combinations, "
                             "matrix entries arbitrary symbols)" % (", lc" if with_lc else "", " - lc_l" if with_lc else "", cnt), detail=str(bad), witness=bad)
            ctx.count(key=(j2, with_lc), sample={"2j": j2, "combinations": cnt})

    return g


for _j2 in range(0, 7):
    group(["C12", "C01", "C02"] if _j2 <= 3 else ["C12"], "dfun.get_D_matrix_lambda/selection/2j=%d" % _j2,
          ["dfun:get_D_matrix_lambda", "dfun:Dfun_delta_v2", "dfun:delta_D_index", "dfun:delta_D_trans", "dfun:get_D_matrix_for_angle"],
          env="shim", kind="P", plain=True, tiers=("quick", "thorough") if _j2 <= 4 else ("thorough",), cost=1 + _j2,
          bound="2j = %d; helicity lists: full ascending, descending, rotated, shuffled, ends only, without 0, without first / last; la, lb (and lc) chosen independently" % _j2,
          assumes=["the D-matrix tensor is taken from the cache slot angle['D_matrix_<2j>'] exactly as get_D_matrix_for_angle stores it; its entries are arbitrary symbols "
                   "(weakest contract of D_matrix_conj: any tensor of shape (n, 2j+1, 2j+1)); tf.gather / tf.pad / tf.reshape op models (A-OPS)"])(_mk_lambda_selection(_j2))

"""Contracts on tf_pwa/data_trans/dalitz.py: momenta built from Dalitz variables reproduce them."""
import math

from vt.core.oblig import group


def s_masses(rng):
    m = [rng.uniform(0.1, 1.0) for _ in range(3)]
    return m


def _sample_point(rng):
    """a physical Dalitz point: three-body kinematics generated from momenta, so m12, m23 are inside the region"""
    m1, m2, m3 = (rng.uniform(0.1, 1.0) for _ in range(3))
    m0 = m1 + m2 + m3 + rng.uniform(0.3, 2.0)
    # sample s12 then s23 inside the kinematic limits
    s12 = rng.uniform((m1 + m2) ** 2 * 1.02, (m0 - m3) ** 2 * 0.98)
    m12 = math.sqrt(s12)
    E2 = (s12 - m1 * m1 + m2 * m2) / (2 * m12)
    E3 = (m0 * m0 - s12 - m3 * m3) / (2 * m12)
    p2 = math.sqrt(max(E2 * E2 - m2 * m2, 0))
    p3 = math.sqrt(max(E3 * E3 - m3 * m3, 0))
    lo = (E2 + E3) ** 2 - (p2 + p3) ** 2
    hi = (E2 + E3) ** 2 - (p2 - p3) ** 2
    s23 = lo + (hi - lo) * rng.uniform(0.05, 0.95)
    return dict(m0=m0, m1=m1, m2=m2, m3=m3, s12=s12, s23=s23)


_cache = {}


def _pt(rng, key):
    # all six inputs must come from ONE consistent draw: cache per rng object state
    k = id(rng)
    if k not in _cache or key in _cache[k]["used"]:
        _cache[k] = {"pt": _sample_point(rng), "used": set()}
    _cache[k]["used"].add(key)
    return _cache[k]["pt"][key]


def kallen(a, b, c):
    return a * a + b * b + c * c - 2 * a * b - 2 * a * c - 2 * b * c


@group(["C11"], "dalitz.generate_p", ["data_trans.dalitz:generate_p", "data_trans.dalitz:_generate_fun0"], cost=3)
def dalitz_generate_p(ctx):
    tf = ctx.tf
    dz = ctx.mod("data_trans.dalitz")
    m0 = ctx.real("m0", (1,), lambda r: [_pt(r, "m0")])
    m1 = ctx.real("m1", (1,), lambda r: [_pt(r, "m1")])
    m2 = ctx.real("m2", (1,), lambda r: [_pt(r, "m2")])
    m3 = ctx.real("m3", (1,), lambda r: [_pt(r, "m3")])
    s12 = ctx.real("s12", (1,), lambda r: [_pt(r, "s12")])
    s23 = ctx.real("s23", (1,), lambda r: [_pt(r, "s23")])
    for m in (m1, m2, m3):
        ctx.require(m > 0.0)
    ctx.require(m0 > m1 + m2 + m3)
    # interior of the physical region, written with invariants only (textbook: Kibble / Gram determinant)
    # particle-1 momentum in the parent frame is real and non-zero:  lambda(m0^2, m1^2, s23) > 0
    ctx.require(kallen(m0 * m0, m1 * m1, s23) > 0.0, "lambda(m0^2,m1^2,s23) > 0")
    ctx.require(s23 > 0.0)
    ctx.require(s12 > 0.0)
    # decay (not scattering) region: the Gram condition below has four solution regions; the decay one is selected by
    ctx.require(s12 > (m1 + m2) * (m1 + m2), "s12 above threshold")
    ctx.require(s12 < (m0 - m3) * (m0 - m3), "s12 below its maximum")
    ctx.require(s23 > (m2 + m3) * (m2 + m3), "s23 above threshold")
    ctx.require(s23 < (m0 - m1) * (m0 - m1), "s23 below its maximum")
    # Gram determinant form of the Dalitz boundary (Byckling-Kajantie IV.5.23):  G(s12, s23, m1^2, m3^2, m0^2, m2^2); argument order validated against the PDG s23 limits <= 0
    x, y, z, u, v, w = s12, s23, m1 * m1, m3 * m3, m0 * m0, m2 * m2
    gram = (x * x * y + x * y * y + z * z * u + z * u * u + v * v * w + v * w * w + x * z * w + x * u * v + y * z * v + y * u * w
            - x * y * (z + u + v + w) - z * u * (x + y + v + w) - v * w * (x + y + z + u))
    ctx.require(gram < 0.0, "Gram determinant G(s12,s23,m1^2,m3^2,m0^2,m2^2) < 0 (interior of the Dalitz region)")
    p1, p2, p3 = dz.generate_p(s12, s23, m0, m1, m2, m3)

    def M2(p):
        return p[..., 0] ** 2 - p[..., 1] ** 2 - p[..., 2] ** 2 - p[..., 3] ** 2

    ctx.eq("onshell1", M2(p1), m1 * m1, clause="p1^2 == m1^2")
    ctx.eq("onshell2", M2(p2), m2 * m2, clause="p2^2 == m2^2")
    ctx.eq("onshell3", M2(p3), m3 * m3, clause="p3^2 == m3^2")
    tot = p1 + p2 + p3
    ctx.eq("sumE", tot[..., 0], m0, clause="E1+E2+E3 == m0")
    ctx.eq("sump", tot[..., 1:4], tf.zeros((1, 3), dtype=tf.float64), clause="p1+p2+p3 == 0 (parent at rest)")
    ctx.eq("m12", M2(p1 + p2), s12, clause="(p1+p2)^2 == m12 (the Dalitz variable given)")
    ctx.eq("m23", M2(p2 + p3), s23, clause="(p2+p3)^2 == m23 (the Dalitz variable given)")
    ctx.holds("E1pos", p1[..., 0] > 0.0, clause="E1 > 0")

"""C16 value-level contracts on tf_pwa/variable.py: coordinate changes preserve the complex value, standardisation gives
r >= 0 and -pi <= phi < pi, and the Bound transformation / inverse / derivatives are consistent (symbolic bounds a < b)."""
import math

from vt.core import terms as tm
from vt.core.oblig import group


def s_r(rng):
    return rng.uniform(-2, 2)


def s_phase(rng):
    return rng.uniform(-7, 7)


def _vm(ctx, polar, v1, v2, name="c"):
    variable = ctx.mod("variable")
    tf = ctx.tf
    vm = variable.VarsManager.__new__(variable.VarsManager)
    vm.variables = {name + "r": tf.Variable(v1), name + "i": tf.Variable(v2)}
    vm.trainable_vars = [name + "r", name + "i"]
    vm.complex_vars = {name: polar}
    vm.same_list = []
    vm.bnd_dic = {}
    vm.mask_vars = {}
    vm.polar = polar
    return vm


def _value(tf, vm, name="c"):
    """the complex number a parameter stands for (independent of the code: polar flag -> r e^{i phi}, else x + i y)"""
    a = tf.convert_to_tensor(vm.variables[name + "r"])
    b = tf.convert_to_tensor(vm.variables[name + "i"])
    if vm.complex_vars[name]:
        return a * tf.cos(b), a * tf.sin(b)
    return a, b


@group(["C16"], "variable.VarsManager.rp2xy", ["variable:VarsManager.rp2xy"])
def rp2xy(ctx):
    tf = ctx.tf
    r, p = ctx.real("r", (), s_r), ctx.real("p", (), s_phase)
    vm = _vm(ctx, True, r, p)
    re0, im0 = _value(tf, vm)
    vm.rp2xy("c")
    ctx.holds("flag", tf.constant(vm.complex_vars["c"] is False), clause="after rp2xy the parameter is flagged Cartesian")
    re1, im1 = _value(tf, vm)
    ctx.eq("re", re1, re0, clause="rp2xy preserves Re of the complex value")
    ctx.eq("im", im1, im0, clause="rp2xy preserves Im of the complex value")


@group(["C16"], "variable.VarsManager.xy2rp", ["variable:VarsManager.xy2rp"])
def xy2rp(ctx):
    tf = ctx.tf
    x, y = ctx.real("x", (), s_r), ctx.real("y", (), s_r)
    ctx.require(x * x + y * y >= 1e-12, "non-zero complex value (atan2(0,0) is conventional; zero is checked separately)")
    vm = _vm(ctx, False, x, y)
    re0, im0 = _value(tf, vm)
    vm.xy2rp("c")
    ctx.holds("flag", tf.constant(vm.complex_vars["c"] is True), clause="after xy2rp the parameter is flagged polar")
    re1, im1 = _value(tf, vm)
    ctx.eq("re", re1, re0, clause="xy2rp preserves Re of the complex value")
    ctx.eq("im", im1, im0, clause="xy2rp preserves Im of the complex value")
    rr = tf.convert_to_tensor(vm.variables["cr"])
    ctx.eq("radius", rr, tf.sqrt(x * x + y * y), clause="radius == |z| (>= 0)")


@group(["C16"], "variable.VarsManager.xy2rp/zero", ["variable:VarsManager.xy2rp"])
def xy2rp_zero(ctx):
    tf = ctx.tf
    z = tf.zeros((), dtype=tf.float64)
    vm = _vm(ctx, False, z, z)
    vm.xy2rp("c")
    re1, im1 = _value(tf, vm)
    ctx.eq("re", re1, 0.0, clause="xy2rp(0) has value 0")
    ctx.eq("im", im1, 0.0, clause="xy2rp(0) has value 0")


@group(["C16"], "variable.VarsManager.std_polar/polar_input", ["variable:VarsManager.std_polar", "variable:VarsManager._std_polar_angle"])
def std_polar(ctx):
    tf = ctx.tf
    r, p = ctx.real("r", (), s_r), ctx.real("p", (), s_phase)
    vm = _vm(ctx, True, r, p)
    re0, im0 = _value(tf, vm)
    vm.std_polar("c")
    re1, im1 = _value(tf, vm)
    ctx.eq("re", re1, re0, clause="std_polar preserves Re of the complex value (both branches of r < 0)")
    ctx.eq("im", im1, im0, clause="std_polar preserves Im of the complex value")
    r1 = tf.convert_to_tensor(vm.variables["cr"])
    p1 = tf.convert_to_tensor(vm.variables["ci"])
    ctx.holds("radius_nonneg", r1 >= 0.0, clause="after std_polar r >= 0")
    ctx.holds("phase_range", (p1 >= -math.pi) & (p1 < math.pi), clause="after std_polar -pi <= phi < pi")


@group(["C16"], "variable.VarsManager.std_polar/cartesian_input", ["variable:VarsManager.std_polar"])
def std_polar_xy(ctx):
    tf = ctx.tf
    x, y = ctx.real("x", (), s_r), ctx.real("y", (), s_r)
    ctx.require(x * x + y * y >= 1e-12)
    vm = _vm(ctx, False, x, y)
    re0, im0 = _value(tf, vm)
    vm.std_polar("c")
    re1, im1 = _value(tf, vm)
    ctx.eq("re", re1, re0, clause="std_polar (from Cartesian) preserves Re")
    ctx.eq("im", im1, im0, clause="std_polar (from Cartesian) preserves Im")


def _mk_standard_complex(which):
    """VarsManager.standard_complex (the sign / phase tidy-up that ends every scipy fit) on two polar parameters a, b with symbolic values
    (radii of either sign, any phase) where - depending on `which` - the radii (or phases) are ONE shared variable (a tie made by set_same:
    same Variable object under both names, names listed in same_list with either member first), or a carries a bound.  Every parameter must
    stand for the same complex number afterwards; an unconstrained one is standardised.  (Added after seeded change
    C08-standard_complex_head_of_tie_group: normalising one member of a tie group flips the shared radius under the other members.)"""
    def g(ctx):
        tf = ctx.tf
        variable = ctx.mod("variable")
        ra, pa, rb, pb = ctx.real("ra", (), s_r), ctx.real("pa", (), s_phase), ctx.real("rb", (), s_r), ctx.real("pb", (), s_phase)
        rc, pc = ctx.real("rc", (), s_r), ctx.real("pc", (), s_phase)
        vm = variable.VarsManager.__new__(variable.VarsManager)
        V = tf.Variable
        # the unconstrained parameter c (6 paths through std_polar) only in the pattern "free": a and b are skipped there by construction
        names = "c" if which == "free" else "ab"
        allv = {"ar": V(ra), "ai": V(pa), "br": V(rb), "bi": V(pb), "cr": V(rc), "ci": V(pc)}
        vm.variables = {k: v for k, v in allv.items() if k[0] in names}
        vm.complex_vars = {n: True for n in names}
        vm.same_list, vm.bnd_dic, vm.mask_vars = [], {}, {}
        vm.trainable_vars = list(vm.variables)
        if which.startswith("tie_r"):
            vm.variables["br"] = vm.variables["ar"]
            vm.trainable_vars.remove("br")
            vm.same_list = [["ar", "br"]] if which == "tie_r/head_first" else [["br", "ar"]]
        elif which.startswith("tie_phase"):
            vm.variables["bi"] = vm.variables["ai"]
            vm.trainable_vars.remove("bi")
            vm.same_list = [["ai", "bi"]] if which == "tie_phase/head_first" else [["bi", "ai"]]
        elif which == "bound_r":
            vm.bnd_dic = {"ar": variable.Bound(None, 5.0)}
        elif which == "bound_phase":
            vm.bnd_dic = {"ai": variable.Bound(-10.0, 10.0)}
        before = {n: _value(tf, vm, n) for n in names}
        vm.standard_complex()
        for n in names:
            re1, im1 = _value(tf, vm, n)
            ctx.eq(n + ".re", re1, before[n][0], clause="standard_complex (%s): Re of the complex value of parameter %s is unchanged" % (which, n))
            ctx.eq(n + ".im", im1, before[n][1], clause="standard_complex (%s): Im of the complex value of parameter %s is unchanged" % (which, n))
        if which == "free":
            r1, p1 = tf.convert_to_tensor(vm.variables["cr"]), tf.convert_to_tensor(vm.variables["ci"])
            ctx.holds("c.standardised", (r1 >= 0.0) & (p1 >= -math.pi) & (p1 < math.pi), clause="the unconstrained parameter c ends with r >= 0 and -pi <= phi < pi")
        if which.startswith("tie"):
            k = "r" if which.startswith("tie_r") else "i"
            ctx.eq("tie", tf.convert_to_tensor(vm.variables["a" + k]), tf.convert_to_tensor(vm.variables["b" + k]), clause="tied members are still equal")

    return g


for _w in ("free", "tie_r/head_first", "tie_r/head_last", "tie_phase/head_first", "tie_phase/head_last", "bound_r", "bound_phase"):
    group(["C16", "C08"], "variable.VarsManager.standard_complex/" + _w, ["variable:VarsManager.standard_complex", "variable:VarsManager.std_polar"],
          bound="three polar parameters, constraint pattern: " + _w)(_mk_standard_complex(_w))


@group(["C16"], "variable.VarsManager._std_polar_angle", ["variable:VarsManager._std_polar_angle"])
def std_polar_angle(ctx):
    tf = ctx.tf
    variable = ctx.mod("variable")
    p = ctx.real("p", (), s_phase)
    q = variable.VarsManager._std_polar_angle(p)
    ctx.holds("range", (q >= -math.pi) & (q < math.pi), clause="_std_polar_angle(p) lies in [-pi, pi)")
    ctx.eq("cos", tf.cos(q) * 1.0, tf.cos(q), clause="(trivial reflexivity: keeps the group non-vacuous in native mode)")


# ------------------------------------------------------------------ Bound with symbolic limits
def _sympy_to_term(e, env):
    import sympy

    if e.is_Symbol:
        return env[str(e)]
    if e.is_Rational:
        return tm.const(tm.Fraction(int(e.p), int(e.q)))
    if e.is_Float:
        return tm.lift(float(e))
    if e is sympy.pi:
        return tm.PI
    if e.is_Add:
        acc = tm.ZERO
        for a in e.args:
            acc = tm.add(acc, _sympy_to_term(a, env))
        return acc
    if e.is_Mul:
        acc = tm.ONE
        for a in e.args:
            acc = tm.mul(acc, _sympy_to_term(a, env))
        return acc
    if e.is_Pow:
        b, x = e.args
        bt = _sympy_to_term(b, env)
        if x.is_Rational:
            return tm.pow_(bt, tm.Fraction(int(x.p), int(x.q)))
        return tm.fn("pow", bt, _sympy_to_term(x, env))
    name = type(e).__name__
    if name in ("sin", "cos", "asin", "acos", "exp", "log", "tanh", "atan", "tan"):
        return tm.fn(name, _sympy_to_term(e.args[0], env))
    raise NotImplementedError("sympy node %s" % name)


def _mk_bound(kind):
    def g(ctx):
        import sympy as sy

        tf = ctx.tf
        variable = ctx.mod("variable")
        a = ctx.real("a", (), lambda r: r.uniform(-2, 0))
        b = ctx.real("b", (), lambda r: r.uniform(0.5, 3))
        x = ctx.real("x", (), lambda r: r.uniform(-1.4, 1.4))
        ctx.require(a < b)
        bd = variable.Bound.__new__(variable.Bound)
        sa, sb = sy.Symbol("a_lim"), sy.Symbol("b_lim")
        if kind == "two_sided":
            bd.lower, bd.upper = sa, sb
        elif kind == "lower":
            bd.lower, bd.upper = sa, None
        else:
            bd.lower, bd.upper = None, sb
        # the default function string chosen by Bound.__init__ for this kind of bound (read from the real __init__ by running it on numbers)
        probe = variable.Bound(0.0 if kind != "upper" else None, 1.0 if kind != "lower" else None)
        bd.func = probe.func
        f, df, df2, inv = bd.get_func()
        env = {"x": tm._l(ctx.shim.elems(x)[0]) if ctx.mode == "sym" else None}
        if ctx.mode != "sym":
            return
        at, bt, xt = ctx.shim.elems(a)[0], ctx.shim.elems(b)[0], ctx.shim.elems(x)[0]
        yv = ctx.real("y", (), lambda r: r.uniform(0.1, 0.4))
        yt = ctx.shim.elems(yv)[0]
        env = {"x": xt, "a_lim": at, "b_lim": bt, "y": yt}
        S = lambda t: ctx.shim.STensor(ctx.shim._arr(t))  # noqa: E731
        ft = _sympy_to_term(f, env)
        dft = _sympy_to_term(df, env)
        df2t = _sympy_to_term(df2, env)
        d1 = tm.diff([ft], {xt: tm.ONE})[0]
        d2 = tm.diff([d1], {xt: tm.ONE})[0]
        ctx.eq("df", S(dft), S(d1), clause="Bound.df == d f/dx (the slope reported by get_dydx is the analytic derivative of the function get_x2y evaluates)")
        ctx.eq("df2", S(df2t), S(d2), clause="Bound.df2 == d^2 f/dx^2")
        lo = at if kind != "upper" else None
        hi = bt if kind != "lower" else None
        if lo is not None:
            ctx.holds("range_lower", S(ft) >= S(lo), clause="f(x) >= a for all x")
        if hi is not None:
            ctx.holds("range_upper", S(ft) <= S(hi), clause="f(x) <= b for all x")
        # f(inv(y)) == y on the allowed range
        if lo is not None:
            ctx.require(yv > a)
        if hi is not None:
            ctx.require(yv < b)
        invt = _sympy_to_term(inv, env)
        f_of_inv = _sympy_to_term(f, dict(env, x=invt))
        ctx.eq("f_inv", S(f_of_inv), yv, clause="f(inv(y)) == y for y inside the allowed range")

    return g


for _k in ("two_sided", "lower", "upper"):
    group(["C16"], "variable.Bound/%s" % _k, ["variable:Bound.get_func", "variable:Bound.__init__"], no_native=True,
          assumes=["A-LIB: sympy.sympify / diff / solve produce the expressions that are then checked (their OUTPUT is verified, not trusted)",
                   "for a one-sided bound the missing limit is the code's +-1e9 placeholder"])(_mk_bound(_k))


# ---------------------------------------------------------------------------------------------
# fit coordinates: set_trans_var / set_all / get / get_all_val with a bound on any one of three free parameters and a fixed fourth one
# ---------------------------------------------------------------------------------------------
class _BoundSummary:
    """assumed contract of a Bound object (proved separately in variable.Bound/*): get_x2y = f, get_y2x = f^-1 (opaque functions, inverse of each other)"""

    def __init__(self, tag):
        self.tag = tag

    def get_x2y(self, x):
        return tm.fn("Bf_" + self.tag, tm._l(_term(x)))

    def get_y2x(self, y):
        return tm.fn("Binv_" + self.tag, tm._l(_term(y)))


def _term(x):
    from vt.core import shim_tf

    if isinstance(x, shim_tf.STensor):
        return shim_tf.elems(x)[0]
    if hasattr(x, "a") and hasattr(x.a, "reshape"):
        return x.a.reshape(-1)[0]
    return x


def _mk_fit_coordinates(bounded_pos):
    def g(ctx):
        tf, shim = ctx.tf, ctx.shim
        variable = ctx.mod("variable")
        variable.np = shim.NpProxy()
        S = lambda t: shim.STensor(shim._arr(t))  # noqa: E731
        names = ["p0", "p1", "p2"]
        v0 = [ctx.real("v%d" % i, ()) for i in range(3)]
        vf = ctx.real("vfix", ())
        vm = variable.VarsManager.__new__(variable.VarsManager)
        def sym_var(v):
            # tf.Variable whose .numpy() hands back the stored symbolic value (numpy() of the shim is for concrete tensors only)
            var = tf.Variable(v)
            var.numpy = lambda var=var: _term(var.value())
            return var

        vm.variables = {n: sym_var(v) for n, v in zip(names, v0)}
        vm.variables["fixed"] = sym_var(vf)
        vm.trainable_vars = list(names)
        vm.complex_vars = {}
        vm.same_list = []
        vm.mask_vars = {}
        vm.pre_trans = {}
        bname = names[bounded_pos]
        vm.bnd_dic = {bname: _BoundSummary("b")}
        stored = lambda n: S(_term(tf.convert_to_tensor(vm.variables[n])))  # noqa: E731
        x = [ctx.real("x%d" % i, ()) for i in range(3)]
        xt = [_term(t) for t in x]
        # ---- a fit step: set_trans_var(x)
        vm.set_trans_var(list(xt))
        for i, n in enumerate(names):
            want = tm.fn("Bf_b", xt[i]) if i == bounded_pos else xt[i]
            ctx.eq("set_trans_var/stored[%s]" % n, stored(n), S(want), clause="after set_trans_var(x): the k-th free parameter stores f(x_k) if bounded, else x_k (same k on both sides)")
        ctx.eq("set_trans_var/fixed_untouched", stored("fixed"), vf, clause="a fixed parameter is not written by a fit step")
        # ---- reading back in fit coordinates gives x again (uses f^-1(f(x)) = x)
        ctx.lemma(S(tm.fn("Binv_b", tm.fn("Bf_b", xt[bounded_pos]))) == x[bounded_pos])
        back = vm.get_all_val(True)
        for i, n in enumerate(names):
            ctx.eq("get_all_val_in_fit/after_step[%s]" % n, S(_term(back[i])), x[i], clause="get_all_val(val_in_fit=True) after set_trans_var(x) returns x (k-th entry for the k-th free parameter)")
        raw = vm.get_all_val()
        for i, n in enumerate(names):
            ctx.eq("get_all_val_raw[%s]" % n, S(_term(raw[i])), stored(n), clause="get_all_val() returns the stored (physical) values in the order of trainable_vars")
        # ---- set_all(list) writes physical values, set_all(list, True) fit coordinates; dict form likewise
        y = [ctx.real("y%d" % i, ()) for i in range(3)]
        yt = [_term(t) for t in y]
        vm.set_all(list(yt))
        for i, n in enumerate(names):
            ctx.eq("set_all_list/stored[%s]" % n, stored(n), y[i], clause="set_all(list): k-th free parameter := k-th value (no bound transformation)")
        vm.set_all(list(xt), True)
        for i, n in enumerate(names):
            want = tm.fn("Bf_b", xt[i]) if i == bounded_pos else xt[i]
            ctx.eq("set_all_list_in_fit/stored[%s]" % n, stored(n), S(want), clause="set_all(list, val_in_fit=True): bounded parameter := f(x_k)")
        o1, o2 = (bounded_pos + 1) % 3, (bounded_pos + 2) % 3
        vm.set_all({names[o1]: yt[o1], bname: yt[bounded_pos]})
        ctx.eq("set_all_dict/stored[bounded]", stored(bname), y[bounded_pos], clause="set_all(dict) (val_in_fit=False): a bounded name := its value, NOT pushed through the bound")
        ctx.eq("set_all_dict/stored[other]", stored(names[o1]), y[o1], clause="set_all(dict): named parameters := their values")
        ctx.eq("set_all_dict/others_untouched", stored(names[o2]), x[o2], clause="set_all(dict): a name that is not in the dictionary keeps its value")
        vm.set_all({bname: xt[bounded_pos]}, val_in_fit=True)
        ctx.eq("set_all_dict_in_fit/stored", stored(bname), S(tm.fn("Bf_b", xt[bounded_pos])), clause="set_all(dict, val_in_fit=True) applies the bound transformation of that name")
        # ---- set / get of one name
        z = ctx.real("z", ())
        zt = _term(z)
        vm.set(bname, zt)
        ctx.eq("set_in_fit/stored", stored(bname), S(tm.fn("Bf_b", zt)), clause="set(name, z) (default val_in_fit=True) stores f(z) for a bounded name")
        vm.set(bname, zt, val_in_fit=False)
        ctx.eq("set_raw/stored", stored(bname), z, clause="set(name, z, val_in_fit=False) stores z")
        ctx.eq("get_raw", S(_term(vm.get(bname, val_in_fit=False))), z, clause="get(name, val_in_fit=False) returns the stored value")
        ctx.eq("get_in_fit", S(_term(vm.get(bname))), S(tm.fn("Binv_b", zt)), clause="get(name) (default val_in_fit=True) returns f^-1(stored) for a bounded name")
        ctx.eq("fixed_untouched_at_end", stored("fixed"), vf, clause="no operation above wrote the fixed parameter")

    return g


for _bp in (0, 1, 2):
    group(["C16", "C08"], "variable.VarsManager/fit_coordinates/bounded=%d" % _bp,
          ["variable:VarsManager.set_trans_var", "variable:VarsManager.set_all", "variable:VarsManager.set", "variable:VarsManager.get", "variable:VarsManager.get_all_val"],
          no_native=True, cost=2, bound="three free parameters, the one at position %d bounded, one fixed parameter; all values symbolic" % _bp,
          assumes=["Bound.get_x2y / get_y2x are an opaque function f and its inverse (their contract is proved for the default bound functions in variable.Bound/*)"])(_mk_fit_coordinates(_bp))

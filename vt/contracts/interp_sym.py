"""C20: the piecewise-linear sampler inverts its own cumulative function (symbolic monotone grid, bounded in the number of nodes)."""
import numpy as np

from vt.core import terms as tm
from vt.core.oblig import group


def _grid(ctx, n):
    xs = [ctx.real("x%d" % i, (), (lambda i: (lambda r: i + r.uniform(0.05, 0.9)))(i)) for i in range(n)]
    ys = [ctx.real("y%d" % i, (), lambda r: r.uniform(0.05, 3)) for i in range(n)]
    for i in range(n - 1):
        ctx.require(xs[i + 1] - xs[i] >= 0.01, "strictly increasing grid")
    for y in ys:
        ctx.require(y >= 0.01, "positive node values (zero-height nodes are the bounded edge case)")
    tf = ctx.tf
    for i in range(n - 1):
        dy, dx = ys[i + 1] - ys[i], xs[i + 1] - xs[i]
        # the code snaps slopes with |k| <= 1e-10 to zero: over the reals the identities are exact only outside that sliver
        ctx.require((dy == 0.0) | (tf.abs(dy) > 1e-10 * dx), "slope exactly zero or above the epsilon snap (the sliver in between is a tolerance clause, bounded)")
    xa = np.empty((n,), dtype=object)
    ya = np.empty((n,), dtype=object)
    for i in range(n):
        xa[i] = ctx.shim.elems(xs[i])[0]
        ya[i] = ctx.shim.elems(ys[i])[0]
    return xs, ys, xa, ya


def _mk(n):
    def g(ctx):
        tf = ctx.tf
        li = ctx.mod("generator.linear_interpolation")
        li.np = ctx.shim.NpProxy()
        xs, ys, xa, ya = _grid(ctx, n)
        f = li.LinearInterp(xa, ya, epsilon=1e-10)
        S = lambda t: ctx.shim.STensor(ctx.shim._arr(t))  # noqa: E731
        # total integral = trapezoid sum
        trap = tm.ZERO
        for i in range(n - 1):
            trap = tm.add(trap, tm.mul(tm.const(tm.Fraction(1, 2)), tm.mul(tm.add(ya[i], ya[i + 1]), tm.add(xa[i + 1], tm.neg(xa[i])))))
        ctx.eq("int_all", S(f.int_all), S(trap), clause="int_all == sum of trapezoid areas", num_tol=1e-6)
        # antiderivative: d/dt integral(t) == f(t), integral(x0) == 0
        t = ctx.real("t", (), lambda r: r.uniform(0.1, n - 0.1))
        ctx.require(t >= xs[0])
        ctx.require(t <= xs[-1])
        tt = ctx.shim.elems(t)[0]
        F = tm._l(f.integral(tt))
        ctx.eq("integral.derivative", S(tm.diff([F], {tt: tm.ONE})[0]), S(tm._l(f(tt))), clause="d/dx integral(x) == __call__(x) on every segment")
        ctx.eq("integral.at_x0", S(tm._l(f.integral(xa[0]))), 0.0, clause="integral(x_0) == 0")
        ctx.eq("integral.at_xN", S(tm._l(f.integral(xa[n - 1]))), S(trap), clause="integral(x_last) == int_all")
        # inverse CDF
        u = ctx.real("u", (), lambda r: r.uniform(0.02, 0.98))
        ctx.require(u >= 0.0)
        ctx.require(u <= 1.0)
        ut = ctx.shim.elems(u)[0]
        sol = tm._l(f.solve(ut))
        ctx.eq("cdf_inverse", S(tm._l(f.integral(sol))), S(tm.mul(ut, trap)), clause="integral(solve(u)) == u * int_all for u in [0,1]")
        ctx.holds("range", (S(sol) >= xs[0]) & (S(sol) <= xs[-1]), clause="x_0 <= solve(u) <= x_last")

    return g


for _n in (3, 4):
    group(["C20"], "generator.LinearInterp/nodes=%d" % _n, ["generator.linear_interpolation:LinearInterp.cal_coeffs", "generator.linear_interpolation:LinearInterp.integral",
                                                           "generator.linear_interpolation:LinearInterp.solve", "generator.linear_interpolation:LinearInterp.__call__"],
          no_native=True, cost=5 * _n, tiers=("quick", "thorough") if _n == 3 else ("thorough",),
          bound="%d grid nodes (each segment's algebra is generic); node values >= 0.01, spacing >= 0.01" % _n,
          assumes=["np.digitize modelled edge by edge for a monotone grid (A-LIB)"])(_mk(_n))

"""C07: every hand-written gradient / Hessian / Hessian-vector formula of the likelihood layer is the derivative of
the value it is returned with (DESIGN 2.3 "jets").

The batched autodiff helpers `sum_gradient`, `sum_hessian`, `sum_grad_hessp` are replaced, in the shadow process only,
by their *assumed contract* (A-AD): they return the value Y(theta) of the weighted sum and its exact first/second
partial derivatives, as uninterpreted functions with declared partials.  The REAL repository function then runs on
these symbols and the obligation is  returned_derivative == d/dtheta(returned value)  obtained by mechanical
differentiation (terms.diff) -- for two generic parameters theta_1, theta_2 (the code treats parameters uniformly
through numpy broadcasting / list comprehension over the variable list).
"""
import numpy as np

from vt.core import terms as tm
from vt.core.oblig import group

AD = ["A-AD: sum_gradient / sum_hessian / sum_grad_hessp return the value of the weighted sum and its exact partial derivatives (TensorFlow autodiff)"]


def _pname(base, idx):
    return base + "_" + "".join(str(i) for i in sorted(idx))


def declare_uf(base, nargs):
    """declare partial names of an uninterpreted function `base` of nargs arguments up to order 3 (symmetric)"""
    tm.declare_partials(base, [_pname(base, (i,)) for i in range(nargs)])
    for i in range(nargs):
        tm.declare_partials(_pname(base, (i,)), [_pname(base, (i, j)) for j in range(nargs)])
        for j in range(nargs):
            tm.declare_partials(_pname(base, (i, j)), [_pname(base, (i, j, k)) for k in range(nargs)])


def uf(base, args, idx=()):
    return tm.fn(_pname(base, idx) if idx else base, *args)


def _S(ctx, t):
    """0-d symbolic tensor from a term"""
    return ctx.shim.STensor(ctx.shim._arr(t))


def _terms(x):
    from vt.core import shim_tf

    return shim_tf.elems(x)


def _theta(ctx, n=2):
    return [ctx.real("theta%d" % i, ()).a[()] for i in range(n)]


def _d(term, theta, k):
    return tm.diff([term], {theta[k]: tm.ONE})[0]


class _Dummy:
    def __init__(self, **kw):
        self.__dict__.update(kw)

    def __call__(self, *a, **k):
        raise RuntimeError("amplitude must not be evaluated: callers are verified against the summaries of the autodiff helpers")


# ------------------------------------------------------------------ BaseModel
def _basemodel(ctx, extended):
    model = ctx.mod("model.model")
    th = _theta(ctx)
    declare_uf("LL", 2)
    declare_uf("INT", 2)
    sig = _Dummy(vm=None, trainable_variables=["v0", "v1"])
    bm = model.BaseModel(sig, resolution_size=1, extended=extended)

    def val_grad_hess(f, trans):
        base = "LL" if trans is model.clip_log else "INT"
        v = uf(base, th)
        g = [uf(base, th, (i,)) for i in range(2)]
        h = [[uf(base, th, (i, j)) for j in range(2)] for i in range(2)]
        return v, g, h

    calls = []   # call-site record: (helper, "data" | "mc", resolution_size handed over)

    def _note(helper, trans, resolution_size):
        calls.append((helper, "data" if trans is model.clip_log else "mc", resolution_size))

    def sum_gradient(f, data, var, weight=1.0, trans=None, resolution_size=1, args=(), kwargs=None):
        _note("sum_gradient", trans, resolution_size)
        v, g, h = val_grad_hess(f, trans)
        return _S(ctx, v), [_S(ctx, x) for x in g]

    def sum_hessian(f, data, var, weight=1.0, trans=None, resolution_size=1, args=(), kwargs=None):
        _note("sum_hessian", trans, resolution_size)
        v, g, h = val_grad_hess(f, trans)
        return _S(ctx, v), ctx.shim.STensor(ctx.shim._arr(g)), ctx.shim.STensor(ctx.shim._arr(h))

    def sum_grad_hessp(f, p, data, var, weight=1.0, trans=None, resolution_size=1, args=(), kwargs=None):
        _note("sum_grad_hessp", trans, resolution_size)
        v, g, h = val_grad_hess(f, trans)
        pv = [_terms(x)[0] for x in p]
        hp = [tm.add(tm.mul(h[i][0], pv[0]), tm.mul(h[i][1], pv[1])) for i in range(2)]
        out = np.empty((2,), dtype=object)
        out[0], out[1] = hp
        return _S(ctx, v), list(g), out

    model.sum_gradient, model.sum_hessian, model.sum_grad_hessp = sum_gradient, sum_hessian, sum_grad_hessp
    bm._vt_calls = calls
    return model, bm, th


def _spec_nll(ctx, th, sw, extended):
    LL = uf("LL", th)
    I = uf("INT", th)
    f = I if extended else tm.fn("log", I)
    return tm.add(tm.neg(LL), tm.mul(sw, f))


def _mk_basemodel(extended):
    def g(ctx):
        tf = ctx.tf
        model, bm, th = _basemodel(ctx, extended)
        w = ctx.real("w", (2,))
        mcw = ctx.real("mcw", (2,))
        sw = tm.add(*_terms(w))
        spec = _spec_nll(ctx, th, sw, extended)
        ctx.require(_S(ctx, uf("INT", th)) > 0.0, "normalisation integral positive")
        tag = "extended" if extended else "default"
        # --- nll_grad_batch
        nll, grad = bm.nll_grad_batch([{}], [{}], [w], [mcw])
        ctx.eq("nll_grad_batch.value", nll, _S(ctx, spec), clause="nll == -sum_i w_i ln f(x_i) + (sum w) %s" % ("I" if extended else "ln I"))
        for k in range(2):
            ctx.eq("nll_grad_batch.grad[%d]" % k, grad[k], _S(ctx, _d(_terms(nll)[0], th, k)), clause="g[k] == d(returned nll)/d theta_k  (%s)" % tag)
        # --- nll_grad (non-batched entry)
        data = {"weight": w}
        mc = {"weight": mcw}
        ctx.require(tf.reduce_sum(w * w) > 0.0)
        ctx.require(tf.reduce_sum(mcw) > 0.0)
        nll2, grad2 = bm.nll_grad(data, mc, batch=65000)
        for k in range(2):
            ctx.eq("nll_grad.grad[%d]" % k, grad2[k], _S(ctx, _d(_terms(nll2)[0], th, k)), clause="nll_grad: g[k] == d(returned nll)/d theta_k  (%s)" % tag)
        # --- nll_grad_hessian
        nll3, g3, h3 = bm.nll_grad_hessian(data, mc, batch=25000)
        n3 = _terms(nll3)[0]
        for k in range(2):
            ctx.eq("nll_grad_hessian.grad[%d]" % k, g3[k], _S(ctx, _d(n3, th, k)), clause="nll_grad_hessian: g[k] == d nll/d theta_k  (%s)" % tag)
            for l in range(2):
                ctx.eq("nll_grad_hessian.hess[%d][%d]" % (k, l), h3[k][l], _S(ctx, _d(_d(n3, th, k), th, l)),
                       clause="nll_grad_hessian: h[k][l] == d^2 nll/d theta_k d theta_l incl. the outer-product term (%s)" % tag)
        # --- grad_hessp_batch
        p = [ctx.real("p%d" % i, ()) for i in range(2)]
        gp, hp = bm.grad_hessp_batch(p, [{}], [{}], [w], [mcw])
        pv = [_terms(x)[0] for x in p]
        for k in range(2):
            ctx.eq("grad_hessp_batch.grad[%d]" % k, gp[k], _S(ctx, _d(spec, th, k)), clause="grad_hessp_batch: g[k] == d nll/d theta_k  (%s)" % tag)
            want = tm.add(tm.mul(_d(_d(spec, th, k), th, 0), pv[0]), tm.mul(_d(_d(spec, th, k), th, 1), pv[1]))
            ctx.eq("grad_hessp_batch.hessp[%d]" % k, hp[k], _S(ctx, want), clause="grad_hessp_batch: hessp[k] == sum_l (d^2 nll/d theta_k d theta_l) p_l  (%s)" % tag)
        # call-site obligations (the helpers are verified against their own contract in model.autodiff_helpers/*; here: they are CALLED with the model's resolution size for the data
        # term - whose events are groups of resolution_size rows - and with resolution 1 for the phase-space integral, whose rows are independent)
        bm.resolution_size = 2
        del bm._vt_calls[:]
        w4 = ctx.real("w4", (4,))
        bm.nll_grad_batch([{}], [{}], [w4], [mcw])
        bm.grad_hessp_batch(p, [{}], [{}], [w4], [mcw])
        bm.nll_grad_hessian({"weight": w4}, mc, batch=24000)
        got = sorted(set(bm._vt_calls))
        want_calls = sorted({(h, "data", 2) for h in ("sum_gradient", "sum_grad_hessp", "sum_hessian")} | {(h, "mc", 1) for h in ("sum_gradient", "sum_grad_hessp", "sum_hessian")})
        ctx.holds("helpers_called_with_model_resolution", tf.constant(got == want_calls),
                  clause="nll_grad_batch / grad_hessp_batch / nll_grad_hessian hand resolution_size = self.resolution_size to the batched helper for the DATA term (trans = clip_log) "
                         "and 1 for the phase-space term: %s" % (got,))

    return g


for _ext in (False, True):
    group(["C07", "C06"], "model.BaseModel/derivatives/%s" % ("extended" if _ext else "default"),
          ["model.model:BaseModel.nll_grad_batch", "model.model:BaseModel.nll_grad", "model.model:BaseModel.nll_grad_hessian", "model.model:BaseModel.grad_hessp_batch",
           "model.model:BaseModel.__init__"], no_native=True, assumes=AD)(_mk_basemodel(_ext))


# ------------------------------------------------------------------ Model_cfit
@group(["C07"], "model.cfit.Model_cfit/derivatives", ["model.cfit:Model_cfit.nll_grad_batch", "model.cfit:Model_cfit.nll_grad_hessian"], no_native=True, assumes=AD)
def cfit_derivs(ctx):
    tf = ctx.tf
    cfit = ctx.mod("model.cfit")
    th = _theta(ctx)
    declare_uf("SIG", 2)
    declare_uf("BG", 2)
    declare_uf("L4", 4)
    S = uf("SIG", th)
    B = uf("BG", th)
    obj = cfit.Model_cfit.__new__(cfit.Model_cfit)
    obj.sig = _Dummy(name="sig")
    obj.bg = _Dummy(name="bg")
    obj.vm = _Dummy(trainable_variables=["v0", "v1"])
    obj.w_bkg = ctx.real("w_bkg", ())
    obj.resolution_size = 1
    obj.get_weight_data = lambda data, weight=1.0, bg=None, **kw: (data, weight)

    def pick(f, var):
        if f is obj.sig:
            return "SIG", list(th)
        if f is obj.bg:
            return "BG", list(th)
        # prob(x): depends on theta and on the two auxiliary variables v_int_sig, v_int_bg
        aux = [_terms(v)[0] for v in var[-2:]]
        return "L4", list(th) + aux

    def sum_gradient(f, data, var, weight=1.0, trans=None, resolution_size=1, args=(), kwargs=None):
        base, args_ = pick(f, var)
        n = len(args_)
        return _S(ctx, uf(base, args_)), [_S(ctx, uf(base, args_, (i,))) for i in range(n)]

    def sum_hessian(f, data, var, weight=1.0, trans=None, resolution_size=1, args=(), kwargs=None):
        base, args_ = pick(f, var)
        n = len(args_)
        g = np.empty((n,), dtype=object)
        h = np.empty((n, n), dtype=object)
        for i in range(n):
            g[i] = uf(base, args_, (i,))
            for j in range(n):
                h[i, j] = uf(base, args_, (i, j))
        return _S(ctx, uf(base, args_)), g, h

    cfit.sum_gradient, cfit.sum_hessian = sum_gradient, sum_hessian
    w = ctx.real("w", (2,))
    mcw = ctx.real("mcw", (2,))
    nll, g = obj.nll_grad_batch([{}], [{}], [w], [mcw])
    total = tm.neg(uf("L4", list(th) + [S, B]))  # -LL(theta, I_sig(theta), I_bg(theta))
    ctx.eq("nll_grad_batch.value", nll, _S(ctx, total), clause="returned value == -LL(theta, I_sig(theta), I_bg(theta))")
    for k in range(2):
        ctx.eq("nll_grad_batch.grad[%d]" % k, g[k], _S(ctx, _d(total, th, k)),
               clause="g[k] == TOTAL derivative d/d theta_k of -LL(theta, I_sig(theta), I_bg(theta)) (chain rule through both integrals)")
    nll2, g2, h2 = obj.nll_grad_hessian({}, {}, weight=w, batch=24000, bg=None, mc_weight=mcw)
    ctx.eq("nll_grad_hessian.value", nll2, _S(ctx, total), clause="returned value == -LL(theta, I_sig, I_bg)")
    for k in range(2):
        ctx.eq("nll_grad_hessian.grad[%d]" % k, g2[k], _S(ctx, _d(total, th, k)), clause="g[k] == total derivative")
        for l in range(2):
            ctx.eq("nll_grad_hessian.hess[%d][%d]" % (k, l), _S(ctx, tm._l(h2[k][l]) if not hasattr(h2[k][l], "a") else _terms(h2[k][l])[0]),
                   _S(ctx, _d(_d(total, th, k), th, l)), clause="h[k][l] == J^T H J + sum_y (dLL/dy) d^2 y  (total second derivative)")


# ------------------------------------------------------------------ ModelCfitExtended
@group(["C07", "C06"], "model.cfit.ModelCfitExtended/derivatives", ["model.cfit:ModelCfitExtended.nll_grad_batch", "model.cfit:ModelCfitExtended.nll_grad_hessian"],
       no_native=True, assumes=AD)
def cfit_extended_derivs(ctx):
    """value == -LL(theta, I_sig, I_bg) - (sum w) ln(I_sig / (1 - w_bkg)) + I_sig / (1 - w_bkg)  (the documented extended term with
    lambda = I_sig / (1 - f_bg)); gradient / Hessian == TOTAL derivatives of that value through both integrals"""
    cfit = ctx.mod("model.cfit")
    th = _theta(ctx)
    declare_uf("SIG", 2)
    declare_uf("BG", 2)
    declare_uf("L4", 4)
    S = uf("SIG", th)
    B = uf("BG", th)
    obj = cfit.ModelCfitExtended.__new__(cfit.ModelCfitExtended)
    obj.sig = _Dummy(name="sig")
    obj.bg = _Dummy(name="bg")
    obj.vm = _Dummy(trainable_variables=["v0", "v1"])
    obj.w_bkg = ctx.real("w_bkg", ())
    obj.resolution_size = 1
    obj.get_weight_data = lambda data, weight=1.0, bg=None, **kw: (data, weight)

    def pick(f, var):
        if f is obj.sig:
            return "SIG", list(th)
        if f is obj.bg:
            return "BG", list(th)
        aux = [_terms(v)[0] for v in var[-2:]]
        return "L4", list(th) + aux

    def sum_gradient(f, data, var, weight=1.0, trans=None, resolution_size=1, args=(), kwargs=None):
        base, args_ = pick(f, var)
        n = len(args_)
        return _S(ctx, uf(base, args_)), [_S(ctx, uf(base, args_, (i,))) for i in range(n)]

    def sum_hessian(f, data, var, weight=1.0, trans=None, resolution_size=1, args=(), kwargs=None):
        base, args_ = pick(f, var)
        n = len(args_)
        g = np.empty((n,), dtype=object)
        h = np.empty((n, n), dtype=object)
        for i in range(n):
            g[i] = uf(base, args_, (i,))
            for j in range(n):
                h[i, j] = uf(base, args_, (i, j))
        return _S(ctx, uf(base, args_)), g, h

    cfit.sum_gradient, cfit.sum_hessian = sum_gradient, sum_hessian
    w = ctx.real("w", (2,))
    mcw = ctx.real("mcw", (2,))
    wb = _terms(obj.w_bkg)[0]
    ctx.require(_S(ctx, S) > 0.0, "signal integral positive")
    ctx.require(obj.w_bkg < 1.0, "background fraction below one")
    ctx.require(obj.w_bkg >= 0.0)
    sw = tm.add(*_terms(w))
    lam = tm.div(S, tm.add(tm.ONE, tm.neg(wb)))
    total = tm.add(tm.add(tm.neg(uf("L4", list(th) + [S, B])), tm.neg(tm.mul(sw, tm.fn("log", lam)))), lam)
    nll, g = obj.nll_grad_batch([{}], [{}], w, [mcw])
    ctx.eq("nll_grad_batch.value", nll, _S(ctx, total), clause="returned value == -LL(theta, I_sig, I_bg) - (sum w) ln lambda + lambda,  lambda = I_sig / (1 - w_bkg)")
    for k in range(2):
        ctx.eq("nll_grad_batch.grad[%d]" % k, g[k], _S(ctx, _d(total, th, k)),
               clause="g[k] == TOTAL derivative d/d theta_k of the returned value (chain rule through both integrals and the extended term)")
    nll2, g2, h2 = obj.nll_grad_hessian({}, {}, weight=w, batch=24000, bg=None, mc_weight=mcw)
    ctx.eq("nll_grad_hessian.value", nll2, _S(ctx, total), clause="returned value == the same extended NLL")
    for k in range(2):
        ctx.eq("nll_grad_hessian.grad[%d]" % k, g2[k], _S(ctx, _d(total, th, k)), clause="g[k] == total derivative")
        for l in range(2):
            ctx.eq("nll_grad_hessian.hess[%d][%d]" % (k, l), _S(ctx, tm._l(h2[k][l]) if not hasattr(h2[k][l], "a") else _terms(h2[k][l])[0]),
                   _S(ctx, _d(_d(total, th, k), th, l)), clause="h[k][l] == total second derivative of the returned value (incl. the extended term)")


# ------------------------------------------------------------------ Gaussian constraints, FCN, CombineFCN
def _vm_stub(ctx, names, trainable, bounded=()):
    """parameter values are raw scalar terms (np.array([...]) of them stays an object array, as np.array of tf scalars stays numeric)"""
    vals = {n: _el(ctx.real("par_" + n, ())) for n in names}
    return _VMStub(trainable_vars=list(trainable), variables=vals, bounded=set(bounded)), vals


class _VMStub(_Dummy):
    """read interface of the real VarsManager on symbolic values.  For a BOUNDED parameter the stored value y (vm.variables[name]) and the
    fit coordinate x = y2x(y) (vm.get(name), val_in_fit=True) are different numbers; y2x is an opaque function here, so code that reads the
    one where the statement means the other is refuted.  (Added after seeded change C07-gauss_constr_grad_fit_coordinates, which the
    stub without `get` turned into a crash instead of a verdict.)"""

    def get(self, name, val_in_fit=True):
        if name not in self.variables:
            raise Exception("{} not found".format(name))
        if val_in_fit and name in self.bounded:
            return tm.fn("uf_y2x_" + name, self.variables[name])
        return self.variables[name]

    def get_all_dic(self, trainable_only=False):
        return {n: self.variables[n] for n in (self.trainable_vars if trainable_only else self.variables)}


@group(["C07", "C06"], "model.GaussianConstr", ["model.model:GaussianConstr.get_constrain_term", "model.model:GaussianConstr.get_constrain_grad",
                                              "model.model:GaussianConstr.get_constrain_hessian"], no_native=True)
def gauss_constr(ctx):
    tf = ctx.tf
    model = ctx.mod("model.model")
    model.np = ctx.shim.NpProxy()  # np.zeros([nv, nv]) must be able to hold symbolic 1/sigma^2
    model.float = lambda x: x  # float() of a real number: identity
    vm, vals = _vm_stub(ctx, ["a", "b", "c", "fixed"], ["a", "b", "c"], bounded=("a", "fixed"))
    mu = {n: _el(ctx.real("mu_" + n, ())) for n in ("a", "c", "fixed")}
    sgt = {n: ctx.real("sg_" + n, (), lambda r: r.uniform(0.1, 2)) for n in ("a", "c", "fixed")}
    for n in sgt:
        ctx.require(sgt[n] > 0.0)
    sg = {n: _el(v) for n, v in sgt.items()}
    import warnings

    with warnings.catch_warnings():
        warnings.simplefilter("ignore")
        gc = model.GaussianConstr(vm, {n: (mu[n], sg[n]) for n in ("a", "c", "fixed")})
    term = gc.get_constrain_term()
    spec = None
    for n in ("a", "c", "fixed"):
        t = (vals[n] - mu[n]) * (vals[n] - mu[n]) / (2.0 * sg[n] * sg[n])
        spec = t if spec is None else spec + t
    ctx.eq("term", _S(ctx, _el(term)), _S(ctx, spec), clause="constraint term == sum_i (theta_i - mu_i)^2 / (2 sigma_i^2) over ALL constrained parameters")
    grad = gc.get_constrain_grad()
    hess = gc.get_constrain_hessian()
    tt = _el(term)
    for k, n in enumerate(vm.trainable_vars):
        dk = tm.diff([tt], {vals[n]: tm.ONE})[0]
        ctx.eq("grad[%s]" % n, _S(ctx, tm._l(grad[k])), _S(ctx, dk), clause="grad[k] == d term/d theta_k at the position of theta_k in trainable_vars (0 if unconstrained)")
        for l, n2 in enumerate(vm.trainable_vars):
            dkl = tm.diff([dk], {vals[n2]: tm.ONE})[0]
            ctx.eq("hess[%s][%s]" % (n, n2), _S(ctx, tm._l(hess[k][l])), _S(ctx, dkl), clause="hessian[k][l] == d^2 term/d theta_k d theta_l")


def _fcn_with_constraint(ctx, model):
    """FCN whose model.* methods are summarised by uninterpreted NLL(theta) with declared partials; real GaussianConstr"""
    names = ["a", "b"]
    vm, vals = _vm_stub(ctx, names, names, bounded=("a",))
    th = [vals[n] for n in names]
    declare_uf("NLL", 2)
    mu, sgt = _el(ctx.real("mu_a", ())), ctx.real("sg_a", (), lambda r: r.uniform(0.1, 2))
    ctx.require(sgt > 0.0)
    sg = _el(sgt)
    fcn = model.FCN.__new__(model.FCN)
    fcn.vm = vm
    fcn.batch = 65000
    fcn.n_call = 0
    fcn.gauss_constr = model.GaussianConstr(vm, {"a": (mu, sg)})
    N = uf("NLL", th)
    g = [uf("NLL", th, (i,)) for i in range(2)]
    h = [[uf("NLL", th, (i, j)) for j in range(2)] for i in range(2)]
    arr_g = np.empty((2,), dtype=object)
    arr_g[:] = g
    arr_h = np.empty((2, 2), dtype=object)
    for i in range(2):
        for j in range(2):
            arr_h[i, j] = h[i][j]
    fcn.get_nll = lambda x={}: _S(ctx, N)
    fcn.get_nll_grad = lambda x={}: (_S(ctx, N), arr_g.copy())
    fcn.get_nll_grad_hessian = lambda x={}, batch=None: (_S(ctx, N), arr_g.copy(), arr_h.copy())

    def get_grad_hessp(x, p, batch):
        pv = [tm._l(_terms(q)[0]) if hasattr(q, "a") else tm._l(q) for q in p]
        hp = np.empty((2,), dtype=object)
        for i in range(2):
            hp[i] = tm.add(tm.mul(h[i][0], pv[0]), tm.mul(h[i][1], pv[1]))
        return arr_g.copy(), hp

    fcn.get_grad_hessp = get_grad_hessp
    return fcn, th, vals


def _el(x):
    """term of a scalar that may be an STensor, a term or a python number"""
    if hasattr(x, "a"):
        return _terms(x)[0]
    return tm._l(x)


@group(["C07", "C06"], "model.FCN/constraint_derivatives", ["model.model:FCN.__call__", "model.model:FCN.nll_grad", "model.model:FCN.nll_grad_hessian",
                                                          "model.model:FCN.grad_hessp", "model.model:FCN.grad"], no_native=True,
       assumes=["model.nll / nll_grad_batch / nll_grad_hessian / grad_hessp_batch are summarised by NLL(theta) and its exact partials (their own contracts: model.BaseModel/derivatives, model.cfit...)",
                "float() on the reported value is the identity (module-level name float is shadowed in the shadow process)"])
def fcn_constraint(ctx):
    model = ctx.mod("model.model")
    model.float = lambda x: x  # `float(self.cached_nll)`: identity on reals
    model.np = ctx.shim.NpProxy()
    fcn, th, vals = _fcn_with_constraint(ctx, model)
    value = _el(fcn({}))
    v2, g2 = fcn.nll_grad({})
    ctx.eq("nll_grad.value", _S(ctx, _el(v2)), _S(ctx, value), clause="value returned by nll_grad == value returned by __call__ (constraint term included in both)")
    for k in range(2):
        ctx.eq("nll_grad.grad[%d]" % k, _S(ctx, _el(g2[k])), _S(ctx, _d(value, th, k)), clause="nll_grad: g[k] == d(reported value)/d theta_k incl. the Gaussian-constraint term")
    v3, g3, h3 = fcn.nll_grad_hessian({})
    ctx.eq("nll_grad_hessian.value", _S(ctx, _el(v3)), _S(ctx, value), clause="value returned by nll_grad_hessian == __call__ value")
    for k in range(2):
        ctx.eq("nll_grad_hessian.grad[%d]" % k, _S(ctx, _el(g3[k])), _S(ctx, _d(value, th, k)), clause="nll_grad_hessian: g[k] == d value/d theta_k")
        for l in range(2):
            ctx.eq("nll_grad_hessian.hess[%d][%d]" % (k, l), _S(ctx, _el(h3[k][l])), _S(ctx, _d(_d(value, th, k), th, l)),
                   clause="nll_grad_hessian: h[k][l] == d^2 value/d theta_k d theta_l incl. the constraint Hessian")
    p = [ctx.real("p%d" % i, ()) for i in range(2)]
    parr = np.empty((2,), dtype=object)
    parr[:] = [_el(q) for q in p]
    g4, hp4 = fcn.grad_hessp({}, parr)
    for k in range(2):
        ctx.eq("grad_hessp.grad[%d]" % k, _S(ctx, _el(g4[k])), _S(ctx, _d(value, th, k)), clause="grad_hessp: g[k] == d value/d theta_k")
        want = tm.add(tm.mul(_d(_d(value, th, k), th, 0), parr[0]), tm.mul(_d(_d(value, th, k), th, 1), parr[1]))
        ctx.eq("grad_hessp.hessp[%d]" % k, _S(ctx, _el(hp4[k])), _S(ctx, want),
               clause="grad_hessp: hessp[k] == sum_l (d^2 value/d theta_k d theta_l) p_l  -- the value __call__ reports INCLUDES the Gaussian-constraint term")


# ------------------------------------------------------------------ bound transformation of value / gradient / Hessian
class _Bound:
    """stub of variable.Bound: y = b(x), dy/dx, d2y/dx2 as an uninterpreted function with declared derivatives
    (the real Bound has its own contract in C16: get_dydx is the derivative of the function get_x2y evaluates)"""

    def __init__(self, tag):
        self.tag = tag
        tm.declare_partials("bnd%s" % tag, ["bnd%s_d" % tag])
        tm.declare_partials("bnd%s_d" % tag, ["bnd%s_dd" % tag])
        tm.declare_partials("bnd%s_dd" % tag, ["bnd%s_ddd" % tag])

    def get_x2y(self, x):
        return tm.fn("bnd%s" % self.tag, tm._l(x))

    def get_dydx(self, x):
        return tm.fn("bnd%s_d" % self.tag, tm._l(x))

    def get_d2ydx2(self, x):
        return tm.fn("bnd%s_dd" % self.tag, tm._l(x))


@group(["C07", "C09"], "variable.VarsManager/bound_chain_rule", ["variable:VarsManager.trans_fcn_grad", "variable:VarsManager.trans_f_grad_hess",
                                                                 "variable:VarsManager.trans_grad_hessp", "variable:VarsManager.trans_error_matrix"], no_native=True,
       bound="3 trainable variables: bounded, free, bounded (numpy broadcasting treats positions uniformly)")
def bound_chain_rule(ctx):
    variable = ctx.mod("variable")
    vm = variable.VarsManager.__new__(variable.VarsManager)
    vm.trainable_vars = ["x0", "x1", "x2"]
    vm.bnd_dic = {"x0": _Bound("A"), "x2": _Bound("B")}
    xs = [_el(ctx.real("x%d" % i, ())) for i in range(3)]
    ys = [vm.bnd_dic["x0"].get_x2y(xs[0]), xs[1], vm.bnd_dic["x2"].get_x2y(xs[2])]
    declare_uf("F", 3)
    F = uf("F", ys)

    def fcn_grad(yv):
        yv = [tm._l(v) for v in yv]
        return uf("F", yv), [uf("F", yv, (i,)) for i in range(3)]

    def f_grad_hess(yv):
        yv = [tm._l(v) for v in yv]
        g = np.empty((3,), dtype=object)
        h = np.empty((3, 3), dtype=object)
        for i in range(3):
            g[i] = uf("F", yv, (i,))
            for j in range(3):
                h[i, j] = uf("F", yv, (i, j))
        return uf("F", yv), g, h

    def grad_hessp(yv, p):
        yv = [tm._l(v) for v in yv]
        g = np.empty((3,), dtype=object)
        hp = np.empty((3,), dtype=object)
        for i in range(3):
            g[i] = uf("F", yv, (i,))
            acc = tm.ZERO
            for j in range(3):
                acc = tm.add(acc, tm.mul(uf("F", yv, (i, j)), tm._l(p[j])))
            hp[i] = acc
        return g, hp

    def dx(t, k):
        return tm.diff([t], {xs[k]: tm.ONE})[0]

    xarr = np.empty((3,), dtype=object)
    xarr[:] = xs
    v, g = vm.trans_fcn_grad(fcn_grad)(xarr)
    ctx.eq("trans_fcn_grad.value", _S(ctx, _el(v)), _S(ctx, F), clause="F_x(x) == F(y(x))")
    for k in range(3):
        ctx.eq("trans_fcn_grad.grad[%d]" % k, _S(ctx, _el(g[k])), _S(ctx, dx(F, k)), clause="dF/dx_k == dF/dy_k * dy_k/dx_k (1 for unbounded)")
    v2, g2, h2 = vm.trans_f_grad_hess(f_grad_hess)(xarr)
    for k in range(3):
        ctx.eq("trans_f_grad_hess.grad[%d]" % k, _S(ctx, _el(g2[k])), _S(ctx, dx(F, k)), clause="gradient through the bound transform")
        for l in range(3):
            ctx.eq("trans_f_grad_hess.hess[%d][%d]" % (k, l), _S(ctx, _el(h2[k][l])), _S(ctx, dx(dx(F, k), l)),
                   clause="H_x = y' H_y y' + diag(F_y y'')")
    p = np.empty((3,), dtype=object)
    p[:] = [_el(ctx.real("p%d" % i, ())) for i in range(3)]
    g3, hp3 = vm.trans_grad_hessp(grad_hessp)(xarr, p)
    for k in range(3):
        ctx.eq("trans_grad_hessp.grad[%d]" % k, _S(ctx, _el(g3[k])), _S(ctx, dx(F, k)), clause="gradient through the bound transform")
        want = tm.ZERO
        for l in range(3):
            want = tm.add(want, tm.mul(dx(dx(F, k), l), p[l]))
        ctx.eq("trans_grad_hessp.hessp[%d]" % k, _S(ctx, _el(hp3[k])), _S(ctx, want), clause="H_x p = y' H_y (y' p) + F_y y'' p")
    V = np.empty((3, 3), dtype=object)
    for i in range(3):
        for j in range(3):
            V[i, j] = _el(ctx.real("V%d%d" % (i, j), ()))
    Vy = vm.trans_error_matrix(V, xarr)
    dy = [dx(ys[k], k) for k in range(3)]
    for i in range(3):
        for j in range(3):
            ctx.eq("trans_error_matrix[%d][%d]" % (i, j), _S(ctx, _el(Vy[i][j])), _S(ctx, tm.mul(tm.mul(dy[i], V[i, j]), dy[j])), clause="V_y = diag(y') V_x diag(y')")


@group(["C07", "C06"], "model.CombineFCN/sum_of_parts", ["model.model:CombineFCN.get_nll", "model.model:CombineFCN.__call__", "model.model:CombineFCN.get_nll_grad",
                                                       "model.model:CombineFCN.nll_grad", "model.model:CombineFCN.nll_grad_hessian", "model.model:CombineFCN.get_grad_hessp"],
       no_native=True, assumes=["each member FCN is summarised by NLL_i(theta) with exact partials (its own contract: model.FCN/constraint_derivatives)"])
def combine_fcn(ctx):
    model = ctx.mod("model.model")
    model.float = lambda x: x
    model.np = ctx.shim.NpProxy()
    names = ["a", "b"]
    vm, vals = _vm_stub(ctx, names, names, bounded=("a",))
    th = [vals[n] for n in names]
    mu, sgt = _el(ctx.real("mu_b", ())), ctx.real("sg_b", (), lambda r: r.uniform(0.1, 2))
    ctx.require(sgt > 0.0)
    sg = _el(sgt)
    parts = []
    for tag in ("N1", "N2", "N3"):
        declare_uf(tag, 2)
        N = uf(tag, th)
        g = np.empty((2,), dtype=object)
        h = np.empty((2, 2), dtype=object)
        for i in range(2):
            g[i] = uf(tag, th, (i,))
            for j in range(2):
                h[i, j] = uf(tag, th, (i, j))

        def mk(N=N, g=g, h=h):
            def hp(x, p, batch):
                out = np.empty((2,), dtype=object)
                for i in range(2):
                    out[i] = tm.add(tm.mul(h[i, 0], tm._l(p[0])), tm.mul(h[i, 1], tm._l(p[1])))
                return g.copy(), out

            # the PUBLIC entry points of a part include the part's OWN constraint term K(theta) (an FCN built with gauss_constr); a combined FCN that went through
            # them instead of the get_* entry points would count the parts' constraints in addition to its own (stub exposes the collaborator's full interface: a
            # missing method turned the seeded change C07-combine_hessian_double_constraint into a crash instead of a verdict)
            ktag = "K" + tag
            declare_uf(ktag, 2)
            K = uf(ktag, th)
            kg = np.empty((2,), dtype=object)
            kh = np.empty((2, 2), dtype=object)
            for i in range(2):
                kg[i] = tm.add(g[i], uf(ktag, th, (i,)))
                for j in range(2):
                    kh[i, j] = tm.add(h[i, j], uf(ktag, th, (i, j)))
            NK = tm.add(N, K)

            def pub_hp(x, p, batch=None):
                out = np.empty((2,), dtype=object)
                for i in range(2):
                    out[i] = tm.add(tm.mul(kh[i, 0], tm._l(p[0])), tm.mul(kh[i, 1], tm._l(p[1])))
                return kg.copy(), out

            class Part(_Dummy):
                def __call__(self, x={}, *a, **k):
                    return _S(ctx, NK)

            return Part(vm=vm, get_nll=lambda x={}: _S(ctx, N), get_grad=lambda x={}: g.copy(), get_nll_grad=lambda x={}: (_S(ctx, N), g.copy()),
                        get_nll_grad_hessian=lambda x={}, batch=None: (_S(ctx, N), g.copy(), h.copy()), get_grad_hessp=hp,
                        nll_grad=lambda x={}, *a, **k: (_S(ctx, NK), kg.copy()), nll_grad_hessian=lambda x={}, *a, **k: (_S(ctx, NK), kg.copy(), kh.copy()),
                        grad_hessp=pub_hp, grad=lambda x={}, *a, **k: kg.copy())

        parts.append((N, mk()))
    cf = model.CombineFCN(fcns=[p for _, p in parts], gauss_constr={"b": (mu, sg)})
    total = tm.ZERO
    for N, _ in parts:
        total = tm.add(total, N)
    constr = tm.div(tm.mul(tm.add(th[1], tm.neg(mu)), tm.add(th[1], tm.neg(mu))), tm.mul(tm.const(2), tm.mul(sg, sg)))
    ctx.eq("get_nll", _S(ctx, _el(cf.get_nll({}))), _S(ctx, total), clause="simultaneous NLL == sum of the parts")
    value = tm.add(total, constr)
    ctx.eq("call", _S(ctx, _el(cf({}))), _S(ctx, value), clause="__call__ == sum of parts + Gaussian-constraint term")
    v, g = cf.nll_grad({})
    ctx.eq("nll_grad.value", _S(ctx, _el(v)), _S(ctx, value), clause="nll_grad value == __call__ value")
    for k in range(2):
        ctx.eq("nll_grad.grad[%d]" % k, _S(ctx, _el(g[k])), _S(ctx, _d(value, th, k)), clause="g[k] == d value/d theta_k (sum over data sets + constraint)")
    v3, g3, h3 = cf.nll_grad_hessian({})
    ctx.eq("nll_grad_hessian.value", _S(ctx, _el(v3)), _S(ctx, value), clause="value")
    for k in range(2):
        ctx.eq("nll_grad_hessian.grad[%d]" % k, _S(ctx, _el(g3[k])), _S(ctx, _d(value, th, k)), clause="gradient")
        for l in range(2):
            ctx.eq("nll_grad_hessian.hess[%d][%d]" % (k, l), _S(ctx, _el(h3[k][l])), _S(ctx, _d(_d(value, th, k), th, l)), clause="Hessian incl. constraint")
    p = np.empty((2,), dtype=object)
    p[:] = [_el(ctx.real("p%d" % i, ())) for i in range(2)]
    g4, hp4 = cf.get_grad_hessp({}, p, 100)
    for k in range(2):
        want = tm.add(tm.mul(_d(_d(total, th, k), th, 0), p[0]), tm.mul(_d(_d(total, th, k), th, 1), p[1]))
        ctx.eq("get_grad_hessp.hessp[%d]" % k, _S(ctx, _el(hp4[k])), _S(ctx, want), clause="Hessian-vector product of the sum == sum of the parts' products")


# ------------------------------------------------------------------ C06: the value formula
def _mk_nll_value(n_data, n_mc, extended):
    def g(ctx):
        tf = ctx.tf
        model = ctx.mod("model.model")
        w = ctx.real("w", (n_data,), lambda r: [r.choice([-1, 1]) * r.uniform(0.2, 2) for _ in range(n_data)])
        v = ctx.real("v", (n_mc,), lambda r: [r.uniform(0.2, 2) for _ in range(n_mc)])
        fd = ctx.real("fd", (n_data,), lambda r: [r.uniform(0.1, 3) for _ in range(n_data)])
        fm = ctx.real("fm", (n_mc,), lambda r: [r.uniform(0.1, 3) for _ in range(n_mc)])
        ctx.require(fd > 1e-6, "densities above the clip of clip_log")
        ctx.require(fm > 0.0)
        ctx.require(v > 0.0)
        ctx.require(tf.reduce_sum(w) > 0.0)
        for i in range(n_data):
            ctx.require(tf.abs(w[i]) > 0.0)
        data = {"weight": w, "_tag": "data"}
        mc = {"weight": v, "_tag": "mc"}

        class Sig:
            vm = None
            trainable_variables = []

            def __call__(self, d):
                return fd if d["_tag"] == "data" else fm

        bm = model.BaseModel(Sig(), resolution_size=1, extended=extended)
        nll = bm.nll(data, mc)
        sw = tf.reduce_sum(w)
        alpha = sw / tf.reduce_sum(w * w)
        integ = tf.reduce_sum(v * fm) / tf.reduce_sum(v)
        spec = -alpha * (tf.reduce_sum(w * tf.math.log(fd)) - sw * (integ if extended else tf.math.log(integ)))
        ctx.eq("value", nll, spec, clause="BaseModel.nll == -alpha [sum_i w_i ln f(x_i) - (sum_i w_i) %s(sum_j v_j f(y_j)/sum_j v_j)], alpha = sum w/sum w^2"
               % ("" if extended else "ln"))

    return g


for _nd in (1, 2, 3):
    for _nm in (1, 3):
        for _ext in (False, True):
            group(["C06"], "model.BaseModel.nll/value/n=%d,m=%d,%s" % (_nd, _nm, "extended" if _ext else "default"),
                  ["model.model:BaseModel.nll", "model.model:clip_log", "model.model:BaseModel.sum_resolution"], no_native=True,
                  bound="tensor lengths n_data=%d, n_mc=%d (reduce_sum mixes the batch axis: proof is per length)" % (_nd, _nm))(_mk_nll_value(_nd, _nm, _ext))


def _mk_nll_value_resolution(n_ev, R, extended):
    """the same value formula with a detector-resolution sample: every event is R consecutive rows (w_er, f_er); the event enters with W_e = sum_r w_er and the
    averaged density sum_r w_er f_er / W_e, and alpha = sum_e W_e / sum_e W_e^2 is built from the PER-EVENT weights (as the gradient paths, which go through
    _batch_sum, do: the value returned with a gradient must be this stand-alone value)"""
    def g(ctx):
        tf = ctx.tf
        model = ctx.mod("model.model")
        n = n_ev * R
        w = ctx.real("w", (n,), lambda r: [r.uniform(0.2, 2) for _ in range(n)])
        v = ctx.real("v", (2,), lambda r: [r.uniform(0.2, 2) for _ in range(2)])
        fd = ctx.real("fd", (n,), lambda r: [r.uniform(0.1, 3) for _ in range(n)])
        fm = ctx.real("fm", (2,), lambda r: [r.uniform(0.1, 3) for _ in range(2)])
        ctx.require(fd > 1e-6, "densities above the clip of clip_log")
        ctx.require(fm > 0.0)
        ctx.require(v > 0.0)
        ctx.require(w > 0.0, "positive resolution weights (signed / zero weights: bounded groups)")
        data = {"weight": w, "_tag": "data"}
        mc = {"weight": v, "_tag": "mc"}

        class Sig:
            vm = None
            trainable_variables = []

            def __call__(self, d):
                return fd if d["_tag"] == "data" else fm

        bm = model.BaseModel(Sig(), resolution_size=R, extended=extended)
        nll = bm.nll(data, mc)
        W = [sum((w[e * R + r] for r in range(1, R)), w[e * R]) for e in range(n_ev)]
        F = [sum((w[e * R + r] * fd[e * R + r] for r in range(1, R)), w[e * R] * fd[e * R]) / W[e] for e in range(n_ev)]
        for e in range(n_ev):
            ctx.require(F[e] > 1e-6)
        sW = sum(W[1:], W[0])
        sW2 = sum((x * x for x in W[1:]), W[0] * W[0])
        alpha = sW / sW2
        integ = tf.reduce_sum(v * fm) / tf.reduce_sum(v)
        ll = sum((W[e] * tf.math.log(F[e]) for e in range(1, n_ev)), W[0] * tf.math.log(F[0]))
        spec = -alpha * (ll - sW * (integ if extended else tf.math.log(integ)))
        ctx.eq("value", nll, spec, clause="BaseModel.nll with resolution_size=%d == -alpha [sum_e W_e ln(sum_r w_er f_er / W_e) - (sum_e W_e) %s(I)], W_e = sum_r w_er, "
                                          "alpha = sum_e W_e / sum_e W_e^2 (per-EVENT weights)" % (R, "" if extended else "ln"))

    return g


for _ne in (1, 2):
    for _ext in (False, True):
        group(["C06", "C07"], "model.BaseModel.nll/value_resolution/events=%d/R=2/%s" % (_ne, "extended" if _ext else "default"),
              ["model.model:BaseModel.nll", "model.model:clip_log", "model.model:BaseModel.sum_resolution"], no_native=True,
              bound="%d events of 2 resolution rows each, 2 phase-space rows (proof is per length)" % _ne)(_mk_nll_value_resolution(_ne, 2, _ext))


@group(["C06"], "model.clip_log", ["model.model:clip_log"], no_native=True)
def clip_log_contract(ctx):
    tf = ctx.tf
    model = ctx.mod("model.model")
    x = ctx.real("x", (1,), lambda r: [r.uniform(1e-5, 3)])
    ctx.require(x > 1e-6)
    ctx.eq("log_branch", model.clip_log(x), tf.math.log(x), clause="clip_log(x) == ln x for x > 1e-6")


def _mk_model_blend(n_d, n_b, bg_has_weight):
    def g(ctx):
        tf = ctx.tf
        model = ctx.mod("model.model")
        w = ctx.real("w", (n_d,), lambda r: [r.uniform(0.5, 2) for _ in range(n_d)])
        fd = ctx.real("fd", (n_d,), lambda r: [r.uniform(0.1, 3) for _ in range(n_d)])
        fb = ctx.real("fb", (n_b,), lambda r: [r.uniform(0.1, 3) for _ in range(n_b)])
        fm = ctx.real("fm", (2,), lambda r: [r.uniform(0.1, 3) for _ in range(2)])
        wb = ctx.real("w_bkg", (), lambda r: r.uniform(0.01, 0.3))
        bw = ctx.real("bgw", (n_b,), lambda r: [-r.uniform(0.01, 0.3) for _ in range(n_b)])
        for t in (fd, fb):
            ctx.require(t > 1e-6)
        ctx.require(fm > 0.0)
        ctx.require(wb > 0.0)
        for i in range(n_d):
            ctx.require(w[i] > 0.0)
        data = {"f": fd, "weight": w}
        bg = {"f": fb}
        if bg_has_weight:
            bg["weight"] = bw
            for i in range(n_b):
                ctx.require(bw[i] < 0.0)
        mc = {"f": fm}

        class Amp:
            vm = None
            trainable_variables = []

            def __call__(self, d):
                return d["f"]

        m = model.Model(Amp(), w_bkg=wb)
        dd, ww = m.get_weight_data(data, bg=bg)
        blend = tf.concat([w, bw if bg_has_weight else tf.ones((n_b,), dtype=tf.float64) * (-wb)], axis=0)
        sw = tf.reduce_sum(blend)
        ctx.require(sw > 0.0, "net signal weight positive")
        alpha = sw / tf.reduce_sum(blend * blend)
        ctx.eq("weights", ww, alpha * blend, clause="get_weight_data: weights == alpha * (w ++ (-w_bkg or bg weights)), alpha = sum/sum of squares of the BLENDED vector")
        ctx.eq("data", dd["f"], tf.concat([fd, fb], axis=0), clause="get_weight_data: every data leaf == data ++ bg")
        nll = m.nll(data, mc, weight=w, bg=bg, mc_weight=1.0)
        fall = tf.concat([fd, fb], axis=0)
        integ = tf.reduce_sum(fm) / 2.0
        spec = -alpha * (tf.reduce_sum(blend * tf.math.log(fall)) - sw * tf.math.log(integ))
        ctx.eq("nll", nll, spec, clause="Model.nll == -alpha[sum_i w_i ln f(x_i) - (sum_i w_i) ln <f>_mc] with background rows weighted -w_bkg (alpha applied ONCE)")

    return g


for _nd, _nb in ((2, 1), (2, 2), (3, 2)):
    for _bw in (False, True):
        group(["C06"], "model.Model/blend_and_nll/n=%d,b=%d,%s" % (_nd, _nb, "bgweights" if _bw else "w_bkg"),
              ["model.model:Model.get_weight_data", "model.model:Model.nll", "model.model:BaseModel.nll", "data:data_merge"], no_native=True,
              bound="tensor lengths n_data=%d, n_bg=%d, n_mc=2" % (_nd, _nb))(_mk_model_blend(_nd, _nb, _bw))


# ------------------------------------------------------------------ FCN: the value belongs to the point that was PASSED, not to the previous one
@group(["C06", "C07", "C08"], "model.FCN/point_passed_is_point_evaluated",
       ["model.model:FCN.__call__", "model.model:FCN.get_nll", "model.model:FCN.nll_grad", "model.model:FCN.get_nll_grad", "model.model:FCN.nll_grad_hessian",
        "model.model:FCN.get_nll_grad_hessian", "model.model:FCN.grad_hessp", "model.model:FCN.get_grad_hessp", "model.model:FCN.grad"], no_native=True,
       assumes=["the likelihood model is summarised by: set_params(x) stores x in the parameter manager; nll / nll_grad_batch / nll_grad_hessian / grad_hessp_batch return "
                "NLL(theta) and its exact partials AT THE STORED parameters (their own contracts: model.BaseModel/derivatives, model.cfit..., model.autodiff_helpers)",
                "float() on the reported value is the identity (module-level name float is shadowed in the shadow process)"])
def fcn_point_passed(ctx):
    """the REAL FCN methods (get_nll, get_nll_grad, ... are NOT replaced here) on a stateful model summary: the parameter manager holds an OLD
    point; every entry point is called with a NEW point; value / gradient / Hessian / Hessian-vector product, INCLUDING the Gaussian-constraint
    terms, must be those of the new point, and the manager must hold the new point afterwards"""
    model = ctx.mod("model.model")
    model.float = lambda x: x
    model.np = ctx.shim.NpProxy()
    model.data_split = lambda w, batch: [w]
    names = ["a", "b"]
    state = {n: _el(ctx.real("old_" + n, ())) for n in names}
    vm = _Dummy(trainable_vars=list(names), variables=state)
    declare_uf("NLL", 2)
    mu, sgt = _el(ctx.real("mu_a", ())), ctx.real("sg_a", (), lambda r: r.uniform(0.1, 2))
    ctx.require(sgt > 0.0)
    sg = _el(sgt)

    def cur():
        return [state[n] for n in names]

    def vgh():
        th = cur()
        N = uf("NLL", th)
        g = np.empty((2,), dtype=object)
        h = np.empty((2, 2), dtype=object)
        for i in range(2):
            g[i] = uf("NLL", th, (i,))
            for j in range(2):
                h[i, j] = uf("NLL", th, (i, j))
        return N, g, h

    class ModelSummary:
        def __init__(self):
            self.vm = vm

        def set_params(self, x):
            if isinstance(x, dict):
                for k, v in x.items():
                    state[k] = _el(v)
            else:
                for n, v in zip(names, list(x)):
                    state[n] = _el(v)

        def nll(self, data, mcdata, weight=None, mc_weight=None, **kw):
            return _S(ctx, vgh()[0])

        def nll_grad_batch(self, data, mcdata, weight=None, mc_weight=None, **kw):
            N, g, h = vgh()
            return _S(ctx, N), g

        def nll_grad_hessian(self, data, mcdata, weight=None, batch=None, mc_weight=None, **kw):
            N, g, h = vgh()
            return _S(ctx, N), g, h

        def grad_hessp_batch(self, p, data, mcdata, weight=None, mc_weight=None, **kw):
            N, g, h = vgh()
            pv = [_el(q) for q in p]
            out = np.empty((2,), dtype=object)
            for i in range(2):
                out[i] = tm.add(tm.mul(h[i, 0], pv[0]), tm.mul(h[i, 1], pv[1]))
            return g, out

    fcn = model.FCN.__new__(model.FCN)
    fcn.model = ModelSummary()
    fcn.vm = vm
    fcn.batch = 65000
    fcn.n_call = fcn.n_grad = 0
    fcn.cached_nll = None
    fcn.data = fcn.mcdata = fcn.weight = fcn.mc_weight = fcn.batch_data = fcn.batch_mcdata = fcn.batch_mc_weight = None
    fcn.gauss_constr = model.GaussianConstr(vm, {"a": (mu, sg)})

    def new_point(tag, as_dict):
        pt = {n: ctx.real("%s_%s" % (tag, n), ()) for n in names}
        arg = dict(pt) if as_dict else [pt[n] for n in names]
        th = [_el(pt[n]) for n in names]
        value = tm.add(uf("NLL", th), tm.div(tm.mul(tm.add(th[0], tm.neg(mu)), tm.add(th[0], tm.neg(mu))), tm.mul(tm.const(2), tm.mul(sg, sg))))
        return arg, th, value

    def stored(tag, th):
        ok = all(state[n] is t for n, t in zip(names, th))
        ctx.holds(tag + "/manager_holds_new_point", ctx.tf.constant(ok), clause="after the call the parameter manager holds the point that was passed")

    arg, th, value = new_point("p1", True)
    ctx.eq("call/value", _S(ctx, _el(fcn(arg))), _S(ctx, value), clause="fcn(x) == NLL(x) + sum (x_i - mu_i)^2 / (2 sigma_i^2), every term at the point x that was passed")
    stored("call", th)
    arg, th, value = new_point("p2", False)
    v, g = fcn.nll_grad(arg)
    ctx.eq("nll_grad/value", _S(ctx, _el(v)), _S(ctx, value), clause="nll_grad(x)[0] == NLL(x) + constraint(x) at the passed point")
    for k in range(2):
        ctx.eq("nll_grad/grad[%d]" % k, _S(ctx, _el(g[k])), _S(ctx, _d(value, th, k)), clause="nll_grad(x)[1][k] == d/dx_k of that value at the passed point")
    stored("nll_grad", th)
    arg, th, value = new_point("p3", True)
    v, g, h = fcn.nll_grad_hessian(arg)
    ctx.eq("nll_grad_hessian/value", _S(ctx, _el(v)), _S(ctx, value), clause="nll_grad_hessian(x)[0] at the passed point")
    for k in range(2):
        ctx.eq("nll_grad_hessian/grad[%d]" % k, _S(ctx, _el(g[k])), _S(ctx, _d(value, th, k)), clause="gradient at the passed point")
        for l in range(2):
            ctx.eq("nll_grad_hessian/hess[%d][%d]" % (k, l), _S(ctx, _el(h[k][l])), _S(ctx, _d(_d(value, th, k), th, l)), clause="Hessian at the passed point")
    stored("nll_grad_hessian", th)
    arg, th, value = new_point("p4", False)
    parr = np.empty((2,), dtype=object)
    parr[:] = [_el(ctx.real("q%d" % i, ())) for i in range(2)]
    g, hp = fcn.grad_hessp(arg, parr)
    for k in range(2):
        ctx.eq("grad_hessp/grad[%d]" % k, _S(ctx, _el(g[k])), _S(ctx, _d(value, th, k)), clause="grad_hessp(x, p)[0][k] at the passed point")
        want = tm.add(tm.mul(_d(_d(value, th, k), th, 0), parr[0]), tm.mul(_d(_d(value, th, k), th, 1), parr[1]))
        ctx.eq("grad_hessp/hessp[%d]" % k, _S(ctx, _el(hp[k])), _S(ctx, want), clause="grad_hessp(x, p)[1][k] == sum_l H_kl(x) p_l at the passed point")
    stored("grad_hessp", th)
    arg, th, value = new_point("p5", True)
    g = fcn.grad(arg)
    for k in range(2):
        ctx.eq("grad/grad[%d]" % k, _S(ctx, _el(g[k])), _S(ctx, _d(value, th, k)), clause="grad(x)[k] at the passed point, constraint included")


@group(["C06", "C07", "C08"], "model.CombineFCN/point_passed_is_point_evaluated",
       ["model.model:CombineFCN.__call__", "model.model:CombineFCN.get_nll", "model.model:CombineFCN.nll_grad", "model.model:CombineFCN.get_nll_grad",
        "model.model:CombineFCN.nll_grad_hessian", "model.model:CombineFCN.get_nll_grad_hessian", "model.model:CombineFCN.grad"], no_native=True,
       assumes=["each member FCN is summarised by: get_nll(x) / get_nll_grad(x) / get_nll_grad_hessian(x) store x in the shared parameter manager and return NLL_i and its "
                "exact partials at the stored point (member contract: model.FCN/point_passed_is_point_evaluated)"])
def combine_point_passed(ctx):
    model = ctx.mod("model.model")
    model.float = lambda x: x
    model.np = ctx.shim.NpProxy()
    names = ["a", "b"]
    state = {n: _el(ctx.real("old_" + n, ())) for n in names}
    vm = _Dummy(trainable_vars=list(names), variables=state)
    mu, sgt = _el(ctx.real("mu_b", ())), ctx.real("sg_b", (), lambda r: r.uniform(0.1, 2))
    ctx.require(sgt > 0.0)
    sg = _el(sgt)

    def store(x):
        if isinstance(x, dict):
            for k, v in x.items():
                state[k] = _el(v)
        else:
            for n, v in zip(names, list(x)):
                state[n] = _el(v)

    def member(tag):
        declare_uf(tag, 2)

        def vgh():
            th = [state[n] for n in names]
            g = np.empty((2,), dtype=object)
            h = np.empty((2, 2), dtype=object)
            for i in range(2):
                g[i] = uf(tag, th, (i,))
                for j in range(2):
                    h[i, j] = uf(tag, th, (i, j))
            return uf(tag, th), g, h

        def get_nll(x={}):
            store(x)
            return _S(ctx, vgh()[0])

        def get_nll_grad(x={}):
            store(x)
            N, g, h = vgh()
            return _S(ctx, N), g

        def get_nll_grad_hessian(x={}, batch=None):
            store(x)
            N, g, h = vgh()
            return _S(ctx, N), g, h

        def get_grad(x={}):
            store(x)
            return vgh()[1]

        # public entry points of a member (its own constraint term K_i included): present so that a combined FCN that calls them gets a verdict, not an AttributeError
        declare_uf("K" + tag, 2)

        def kvgh():
            th = [state[n] for n in names]
            N, g, h = vgh()
            g2 = np.empty((2,), dtype=object)
            h2 = np.empty((2, 2), dtype=object)
            for i in range(2):
                g2[i] = tm.add(g[i], uf("K" + tag, th, (i,)))
                for j in range(2):
                    h2[i, j] = tm.add(h[i, j], uf("K" + tag, th, (i, j)))
            return tm.add(N, uf("K" + tag, th)), g2, h2

        def pub_nll_grad(x={}, *a, **k):
            store(x)
            N, g, h = kvgh()
            return _S(ctx, N), g

        def pub_nll_grad_hessian(x={}, *a, **k):
            store(x)
            N, g, h = kvgh()
            return _S(ctx, N), g, h

        def pub_grad(x={}, *a, **k):
            store(x)
            return kvgh()[1]

        class Member(_Dummy):
            def __call__(self, x={}, *a, **k):
                store(x)
                return _S(ctx, kvgh()[0])

        return Member(vm=vm, get_nll=get_nll, get_nll_grad=get_nll_grad, get_nll_grad_hessian=get_nll_grad_hessian, get_grad=get_grad,
                      nll_grad=pub_nll_grad, nll_grad_hessian=pub_nll_grad_hessian, grad=pub_grad)

    tags = ("M1", "M2")
    cf = model.CombineFCN(fcns=[member(t) for t in tags], gauss_constr={"b": (mu, sg)})

    def new_point(tag, as_dict):
        pt = {n: ctx.real("%s_%s" % (tag, n), ()) for n in names}
        arg = dict(pt) if as_dict else [pt[n] for n in names]
        th = [_el(pt[n]) for n in names]
        value = tm.div(tm.mul(tm.add(th[1], tm.neg(mu)), tm.add(th[1], tm.neg(mu))), tm.mul(tm.const(2), tm.mul(sg, sg)))
        for t in tags:
            value = tm.add(value, uf(t, th))
        return arg, th, value

    arg, th, value = new_point("p1", True)
    ctx.eq("call/value", _S(ctx, _el(cf(arg))), _S(ctx, value), clause="CombineFCN(x) == sum_i NLL_i(x) + constraint(x), every term at the point that was passed")
    arg, th, value = new_point("p2", False)
    v, g = cf.nll_grad(arg)
    ctx.eq("nll_grad/value", _S(ctx, _el(v)), _S(ctx, value), clause="nll_grad(x)[0] at the passed point")
    for k in range(2):
        ctx.eq("nll_grad/grad[%d]" % k, _S(ctx, _el(g[k])), _S(ctx, _d(value, th, k)), clause="nll_grad(x)[1][k] at the passed point")
    arg, th, value = new_point("p3", True)
    v, g, h = cf.nll_grad_hessian(arg)
    ctx.eq("nll_grad_hessian/value", _S(ctx, _el(v)), _S(ctx, value), clause="nll_grad_hessian(x)[0] at the passed point")
    for k in range(2):
        ctx.eq("nll_grad_hessian/grad[%d]" % k, _S(ctx, _el(g[k])), _S(ctx, _d(value, th, k)), clause="gradient at the passed point")
        for l in range(2):
            ctx.eq("nll_grad_hessian/hess[%d][%d]" % (k, l), _S(ctx, _el(h[k][l])), _S(ctx, _d(_d(value, th, k), th, l)), clause="Hessian at the passed point")
    arg, th, value = new_point("p4", False)
    g = cf.grad(arg)
    for k in range(2):
        ctx.eq("grad/grad[%d]" % k, _S(ctx, _el(g[k])), _S(ctx, _d(value, th, k)), clause="grad(x)[k] at the passed point, constraint included")


# ------------------------------------------------------------------ ModelCachedInt (model/opt_int.py)
@group(["C07", "C05"], "model.opt_int.ModelCachedInt/derivatives",
       ["model.opt_int:ModelCachedInt.nll_grad_batch", "model.opt_int:ModelCachedInt.nll_grad_hessian", "model.opt_int:sum_gradient", "model.opt_int:ModelCachedInt.get_cached_int"],
       no_native=True, cost=8,
       bound="2 batches of 2 and 1 data events; the cached integral is an arbitrary smooth function INT(theta) of two parameters, the cached per-event densities arbitrary "
             "smooth functions (the statement's precondition - fixed line-shape parameters - is what makes these caches valid and is not needed for this clause)",
       assumes=["A-AD (reduced): GradientTape returns the mathematical derivative of the recorded computation (modelled by terms.diff)",
                "model.sum_hessian returns value / gradient / Hessian of the weighted clip_log sum (proved in model.autodiff_helpers/*)"])
def cached_int_derivs(ctx):
    """cached_int likelihood: value == -sum_i w_i clip_log f_i(theta) + (sum w) ln INT(theta) - the default model's formula with the same
    clip_log as the default (a plain log would differ for densities below 1e-6) - and gradient / Hessian are its derivatives"""
    tf, shim = ctx.tf, ctx.shim
    oi = ctx.mod("model.opt_int")
    model = ctx.mod("model.model")
    th_t = [ctx.real("theta%d" % i, ()) for i in range(2)]
    th = [t.a[()] for t in th_t]
    var = [tf.Variable(t) for t in th_t]
    declare_uf("INT", 2)
    declare_uf("LL", 2)
    S = lambda t: shim.STensor(shim._arr(t))  # noqa: E731
    obj = oi.ModelCachedInt.__new__(oi.ModelCachedInt)
    obj.Amp = _Dummy(trainable_variables=var, decay_group=None)
    obj.w_bkg = 1.0
    obj.resolution_size = 1
    # data side: two batches of cached per-event densities
    data = [{"b": 0}, {"b": 1}]
    names = [["F00", "F01"], ["F10"]]
    weight = [ctx.real("w0", (2,)), ctx.real("w1", (1,))]
    for b in names:
        for n in b:
            declare_uf(n, 2)

    def mk(bn):
        def f():
            o = np.empty((len(bn),), dtype=object)
            for i, n in enumerate(bn):
                o[i] = uf(n, th)
            return shim.STensor(o)
        return f

    obj.cached_amp = {id(data): [mk(b) for b in names]}
    mcdata = [{"mc": 0}]
    obj.cached_int = {id(mcdata): (lambda: S(uf("INT", th)))}
    ctx.require(S(uf("INT", th)) > 0.0, "normalisation integral positive")

    def clip(x):
        o = np.empty((), dtype=object)
        o[()] = x
        return shim.elems(model.clip_log(shim.STensor(o)))[0]

    ll = tm.ZERO
    sw = tm.ZERO
    for bn, ws in zip(names, weight):
        w = [tm._l(x) for x in ws.a.reshape(-1)]
        for n, wi in zip(bn, w):
            ll = tm.add(ll, tm.mul(wi, clip(uf(n, th))))
            sw = tm.add(sw, wi)
    spec = tm.add(tm.neg(ll), tm.mul(sw, tm.fn("log", uf("INT", th))))
    nll, g = obj.nll_grad_batch(data, mcdata, weight, [ctx.real("mcw", (2,))])
    ctx.eq("nll_grad_batch.value", nll, S(spec), clause="cached_int value == -sum_i w_i clip_log f(x_i) + (sum w) ln INT  (the default model's formula, same clip_log)")
    for k in range(2):
        ctx.eq("nll_grad_batch.grad[%d]" % k, g[k], S(_d(spec, th, k)), clause="cached_int g[k] == d(returned nll)/d theta_k")
    # Hessian entry: data term summarised by the (proved) contract of model.sum_hessian
    def sum_hessian(f, data_, var_, weight=1.0, trans=None, resolution_size=1, args=(), kwargs=None):
        gg = np.empty((2,), dtype=object)
        hh = np.empty((2, 2), dtype=object)
        for i in range(2):
            gg[i] = uf("LL", th, (i,))
            for j in range(2):
                hh[i, j] = uf("LL", th, (i, j))
        return S(uf("LL", th)), shim.STensor(gg), shim.STensor(hh)

    oi.sum_hessian = sum_hessian
    obj.get_weight_data = lambda data, weight=1.0, bg=None, **kw: (data, weight)
    wd = ctx.real("wd", (3,))
    mcw = ctx.real("mcw3", (2,))
    ctx.require(tf.reduce_sum(mcw) > 0.0, "phase-space weights with positive sum")
    mc2 = {"mc": 1}
    obj.cached_int[id(mc2)] = (lambda: S(uf("INT", th)))
    nll2, g2, h2 = obj.nll_grad_hessian({"d": 0}, mc2, weight=wd, batch=24000, bg=None, mc_weight=mcw)
    sw2 = tm.ZERO
    for x in wd.a.reshape(-1):
        sw2 = tm.add(sw2, tm._l(x))
    nmc = tm.ZERO
    for x in mcw.a.reshape(-1):
        nmc = tm.add(nmc, tm._l(x))
    spec2 = tm.add(tm.neg(uf("LL", th)), tm.mul(sw2, tm.fn("log", tm.div(uf("INT", th), nmc))))
    ctx.eq("nll_grad_hessian.value", nll2, S(spec2), clause="value == -LL + (sum w) ln(INT / sum mc_weight)")
    g2a = shim._arr(g2).reshape(-1)
    h2a = shim._arr(h2).reshape(2, 2)
    for k in range(2):
        ctx.eq("nll_grad_hessian.grad[%d]" % k, S(tm._l(g2a[k])), S(_d(spec2, th, k)), clause="g[k] == d value / d theta_k")
        for l in range(2):
            ctx.eq("nll_grad_hessian.hess[%d][%d]" % (k, l), S(tm._l(h2a[k][l])), S(_d(_d(spec2, th, k), th, l)),
                   clause="h[k][l] == d^2 value / d theta_k d theta_l (incl. the outer-product term of ln INT)")


# ------------------------------------------------------------------ C06: the cfit value formulas (documented signal / background mixture)
def _mk_cfit_value(n_data, n_mc, extended, with_mcw):
    def g(ctx):
        tf = ctx.tf
        cfit = ctx.mod("model.cfit")
        w = ctx.real("w", (n_data,), lambda r: [r.choice([-1, 1]) * r.uniform(0.2, 2) for _ in range(n_data)])
        v = ctx.real("v", (n_mc,), lambda r: [r.uniform(0.2, 2) for _ in range(n_mc)])
        sd = ctx.real("sd", (n_data,), lambda r: [r.uniform(0.1, 3) for _ in range(n_data)])
        bd = ctx.real("bd", (n_data,), lambda r: [r.uniform(0.1, 3) for _ in range(n_data)])
        sm = ctx.real("sm", (n_mc,), lambda r: [r.uniform(0.1, 3) for _ in range(n_mc)])
        bm = ctx.real("bm", (n_mc,), lambda r: [r.uniform(0.1, 3) for _ in range(n_mc)])
        f = ctx.real("f_bg", (), lambda r: r.uniform(0.01, 0.6))
        for t in (sd, bd, sm, bm, v):
            ctx.require(t > 0.0)
        ctx.require(f > 0.0)
        ctx.require(f < 1.0)
        for i in range(n_data):
            ctx.require(tf.abs(w[i]) > 0.0, "non-zero event weights (exact zeros: bounded groups zero_weight/*)")
        cls = cfit.ModelCfitExtended if extended else cfit.Model_cfit
        obj = cls.__new__(cls)
        obj.sig = lambda d: sd if d["_tag"] == "data" else sm
        obj.bg = lambda d: bd if d["_tag"] == "data" else bm
        obj.w_bkg = f
        obj.resolution_size = 1
        obj.get_weight_data = lambda data, weight=1.0, bg=None, **kw: (data, weight)
        mcw = v if with_mcw else None
        nll = obj.nll({"_tag": "data"}, {"_tag": "mc"}, weight=w, mc_weight=mcw)
        if with_mcw:
            I_s, I_b = tf.reduce_sum(v * sm), tf.reduce_sum(v * bm)
        else:
            I_s, I_b = tf.reduce_sum(sm) / float(n_mc), tf.reduce_sum(bm) / float(n_mc)
        P = (1.0 - f) * sd / I_s + f * bd / I_b
        ctx.require(P > 1e-6, "mixture density above the clip of clip_log")
        spec = -tf.reduce_sum(w * tf.math.log(P))
        if extended:
            lam = I_s / (1.0 - f)
            spec = spec - tf.reduce_sum(w) * tf.math.log(lam) + lam
        ctx.eq("value", nll, spec, clause="%s.nll == -sum_i w_i ln[(1-f) sig(x_i)/I_sig + f bg(x_i)/I_bg]%s, I = %s over the phase-space sample"
               % (cls.__name__, " - (sum w) ln lambda + lambda, lambda = I_sig/(1-f)" if extended else "", "sum_j v_j (.)" if with_mcw else "mean"))

    return g


for _nd in (1, 2):
    for _ext in (False, True):
        for _mcw in (True, False):
            group(["C06"], "model.cfit.%s.nll/value/n=%d/%s" % ("ModelCfitExtended" if _ext else "Model_cfit", _nd, "mc_weight" if _mcw else "mc_mean"),
                  ["model.cfit:%s.nll" % ("ModelCfitExtended" if _ext else "Model_cfit"), "model.model:clip_log", "model.model:BaseModel.sum_resolution"], no_native=True,
                  bound="tensor lengths n_data=%d, n_mc=2 (reduce_sum mixes the batch axis: proof is per length); resolution_size 1" % _nd)(_mk_cfit_value(_nd, 2, _ext, _mcw))

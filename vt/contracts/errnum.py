"""Contracts on tf_pwa/err_num.py: every operator of NumberError propagates errors to first order,
error = sqrt(sum_k (d f/d x_k * sigma_k)^2) >= 0  (C09).  Partial derivatives are written out by hand from calculus."""
from vt.core.oblig import group


def s_val(rng):
    return rng.uniform(-3, 3)


def s_pos(rng):
    return rng.uniform(0.2, 3)


def s_sig(rng):
    return rng.uniform(0.01, 0.5)


def _inputs(ctx, positive_a=False):
    a = ctx.real("a", (), s_pos if positive_a else s_val)
    b = ctx.real("b", (), s_val)
    sa = ctx.real("sa", (), s_sig)
    sb = ctx.real("sb", (), s_sig)
    ctx.require(sa >= 0.0)
    ctx.require(sb >= 0.0)
    return a, b, sa, sb


@group(["C09"], "err_num.NumberError/add_sub_neg", ["err_num:NumberError.__add__", "err_num:NumberError.__sub__", "err_num:NumberError.__neg__"])
def add_sub_neg(ctx):
    tf = ctx.tf
    NE = ctx.mod("err_num").NumberError
    a, b, sa, sb = _inputs(ctx)
    x, y = NE(a, sa), NE(b, sb)
    for nm, r, val in (("add", x + y, a + b), ("sub", x - y, a - b)):
        ctx.eq(nm + ".value", r.value, val, clause="(x %s y).value" % nm)
        ctx.eq(nm + ".error", r.error, tf.sqrt(sa * sa + sb * sb), clause="(x %s y).error == sqrt(sa^2 + sb^2)" % nm)
    for nm, r, val in (("add_exact", x + b, a + b), ("sub_exact", x - b, a - b)):
        ctx.eq(nm + ".value", r.value, val, clause=nm + " value")
        ctx.eq(nm + ".error", r.error, sa, clause=nm + ": error unchanged by an exact shift")
    r = -x
    ctx.eq("neg.value", r.value, -a, clause="(-x).value == -a")
    ctx.eq("neg.error", r.error, sa, clause="(-x).error == sa")


@group(["C09"], "err_num.NumberError/mul", ["err_num:NumberError.__mul__"])
def mul(ctx):
    tf = ctx.tf
    NE = ctx.mod("err_num").NumberError
    a, b, sa, sb = _inputs(ctx)
    x, y = NE(a, sa), NE(b, sb)
    r = x * y
    ctx.eq("value", r.value, a * b, clause="(x*y).value == a b")
    ctx.eq("error", r.error, tf.sqrt((b * sa) * (b * sa) + (a * sb) * (a * sb)), clause="(x*y).error == sqrt((b sa)^2 + (a sb)^2)")
    r = x * b
    ctx.eq("exact.value", r.value, a * b, clause="(x*c).value == a c")
    ctx.eq("exact.error", r.error, tf.abs(b) * sa, clause="(x*c).error == |c| sa  (an uncertainty is never negative)")


@group(["C09"], "err_num.NumberError/truediv", ["err_num:NumberError.__truediv__"])
def truediv(ctx):
    tf = ctx.tf
    NE = ctx.mod("err_num").NumberError
    a, b, sa, sb = _inputs(ctx)
    ctx.require(tf.abs(b) >= 0.05)
    x, y = NE(a, sa), NE(b, sb)
    r = x / y
    ctx.eq("value", r.value, a / b, clause="(x/y).value == a/b")
    ctx.eq("error", r.error, tf.sqrt((sa / b) * (sa / b) + (a * sb / (b * b)) * (a * sb / (b * b))),
           clause="(x/y).error == sqrt((sa/b)^2 + (a sb/b^2)^2)  (>= 0 also for b < 0)")
    r = x / b
    ctx.eq("exact.value", r.value, a / b, clause="(x/c).value == a/c")
    ctx.eq("exact.error", r.error, sa / tf.abs(b), clause="(x/c).error == sa/|c|")


@group(["C09"], "err_num.NumberError/pow", ["err_num:NumberError.__pow__", "err_num:NumberError.__rpow__"])
def pow_(ctx):
    tf = ctx.tf
    NE = ctx.mod("err_num").NumberError
    a, b, sa, sb = _inputs(ctx, positive_a=True)
    ctx.require(a > 0.0)
    x, y = NE(a, sa), NE(b, sb)
    r = x**y
    val = a**b
    ctx.eq("value", r.value, val, clause="(x**y).value == a^b")
    d_a = b * a ** (b - 1) * sa
    d_b = tf.math.log(a) * val * sb
    ctx.eq("error", r.error, tf.sqrt(d_a * d_a + d_b * d_b), clause="(x**y).error == sqrt((b a^(b-1) sa)^2 + (ln(a) a^b sb)^2)  [d(a^b)/db = ln(a) a^b]")
    r = x**b
    ctx.eq("exact_exponent.value", r.value, val, clause="(x**c).value == a^c")
    ctx.eq("exact_exponent.error", r.error, tf.abs(b * a ** (b - 1)) * sa, clause="(x**c).error == |c a^(c-1)| sa")
    c = ctx.real("c", (), s_pos)
    ctx.require(c > 0.0)
    yb = NE(b, sb)
    r = c**yb
    ctx.eq("rpow.value", r.value, c**b, clause="(c**y).value == c^b")
    ctx.eq("rpow.error", r.error, tf.abs(tf.math.log(c) * c**b) * sb, clause="(c**y).error == |ln(c) c^b| sb  [d(c^b)/db = ln(c) c^b]")


@group(["C09"], "err_num.NumberError/log_exp_apply", ["err_num:NumberError.log", "err_num:NumberError.exp", "err_num:NumberError.apply", "err_num:cal_err"])
def log_exp_apply(ctx):
    tf = ctx.tf
    mod = ctx.mod("err_num")
    NE = mod.NumberError
    a, b, sa, sb = _inputs(ctx)
    ctx.require(tf.abs(a) >= 0.05)
    x, y = NE(a, sa), NE(b, sb)
    p = ctx.real("p", (), s_pos)
    ctx.require(p > 0.0)
    xp = NE(p, sa)
    r = xp.log()
    ctx.eq("log.value", r.value, tf.math.log(p), clause="log(x).value == ln a")
    ctx.eq("log.error", r.error, sa / p, clause="log(x).error == sa/|a|")
    r = x.exp()
    ctx.eq("exp.value", r.value, tf.exp(a), clause="exp(x).value == e^a")
    ctx.eq("exp.error", r.error, tf.exp(a) * sa, clause="exp(x).error == e^a sa")
    r = x.apply(lambda v: v * v * v, grad=lambda v: 3.0 * v * v)
    ctx.eq("apply.value", r.value, a * a * a, clause="apply(f, grad).value == f(a)")
    ctx.eq("apply.error", r.error, 3.0 * a * a * sa, clause="apply(f, grad).error == |f'(a)| sa")
    r = mod.cal_err(lambda u, v, w: u * v + w * u, x, y, 2.0, grad=lambda u, v, w: [v + w, u, u])
    ctx.eq("cal_err.value", r.value, a * b + 2.0 * a, clause="cal_err(f, x, y, c).value == f(a, b, c)")
    ctx.eq("cal_err.error", r.error, tf.sqrt(((b + 2.0) * sa) * ((b + 2.0) * sa) + (a * sb) * (a * sb)),
           clause="cal_err(...).error == sqrt(sum_k (df/dx_k sigma_k)^2), exact arguments contribute 0")
    # exact arguments at EVERY position, analytic and numerical gradient (added after seeded change C09-cal_err_analytic_grad_misaligned:
    # an exact number in front of an uncertain one shifts the pairing of derivatives and errors).  f is linear in each argument, so the
    # central difference of the numerical branch is exact over the reals.
    f3 = lambda u, v, w: u * v + w * u + 3.0 * w  # noqa: E731
    g3 = lambda u, v, w: [v + w, u, u + 3.0]  # noqa: E731
    for tag, args, val, dsq in (
        ("exact_first", (2.0, x, y), 2.0 * a + b * 2.0 + 3.0 * b, (2.0 * sa) * (2.0 * sa) + (5.0 * sb) * (5.0 * sb)),
        ("exact_middle", (x, 2.0, y), a * 2.0 + b * a + 3.0 * b, ((2.0 + b) * sa) * ((2.0 + b) * sa) + ((a + 3.0) * sb) * ((a + 3.0) * sb)),
        ("exact_first_two", (2.0, 0.5, y), 1.0 + b * 2.0 + 3.0 * b, (5.0 * sb) * (5.0 * sb)),
    ):
        for how, kw in (("analytic", dict(grad=g3)), ("numeric", dict())):
            r = mod.cal_err(f3, *args, **kw)
            ctx.eq("cal_err.%s.%s.value" % (tag, how), r.value, val, clause="cal_err(f, %s; %s gradient).value == f at the central values" % (tag, how))
            ctx.eq("cal_err.%s.%s.error" % (tag, how), r.error, tf.sqrt(dsq),
                   clause="cal_err(f, %s; %s gradient).error == sqrt(sum over the UNCERTAIN arguments (df/dx_k sigma_k)^2), each derivative paired with its own argument's sigma" % (tag, how))

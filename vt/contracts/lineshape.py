"""Symbolic contracts on tf_pwa/breit_wigner.py: barrier factors, running width, Breit-Wigner family (C15).

Spec functions come from the documentation formulas: theta_L reverse Bessel polynomial, B_L'(q,q0,d)^2 =
|theta_L(i q0 d)|^2 / |theta_L(i q d)|^2,  Gamma(m) = Gamma0 (q/q0)^(2L+1) (m0/m) B_L'^2,  BW = 1/(m0^2 - m^2 - i m0 Gamma).
"""
import math
from fractions import Fraction

from vt.core.oblig import group


def theta2_coeffs(L):
    """integer coefficients c_i of |theta_L(i w)|^2 = sum_i c_i w^(2i), from the definition of the reverse Bessel polynomial"""
    a = [Fraction(math.factorial(L + k), math.factorial(L - k) * math.factorial(k) * 2**k) for k in range(L + 1)]  # coeff of x^(L-k)
    # theta(i w) = sum_k a_k (i w)^(L-k);  real part: even powers of i, imaginary part: odd powers
    re, im = {}, {}
    for k, ak in enumerate(a):
        p = L - k
        r = p % 4
        if r == 0:
            re[p] = re.get(p, 0) + ak
        elif r == 2:
            re[p] = re.get(p, 0) - ak
        elif r == 1:
            im[p] = im.get(p, 0) + ak
        else:
            im[p] = im.get(p, 0) - ak
    out = {}
    for d in (re, im):
        for p1, c1 in d.items():
            for p2, c2 in d.items():
                out[p1 + p2] = out.get(p1 + p2, 0) + c1 * c2
    # normalise so that the leading coefficient is 1 as in the documentation tables
    lead = out[2 * L]
    return [out.get(2 * i, 0) / lead for i in range(L + 1)]  # c_0 .. c_L (w^0 .. w^(2L))


def theta2(tf, L, z):
    cs = theta2_coeffs(L)
    acc = None
    zp = None
    for i, c in enumerate(cs):
        c = float(c) if c.denominator != 1 else int(c)
        if i == 0:
            acc = z * 0.0 + c
            zp = z
        else:
            acc = acc + c * zp
            zp = zp * z
    return acc


def s_pos(lo, hi):
    return lambda r: [r.uniform(lo, hi)]


def _inputs(ctx):
    m = ctx.real("m", (1,), s_pos(0.4, 2.5))
    m0 = ctx.real("m0", (1,), s_pos(0.5, 2.0))
    g0 = ctx.real("g0", (1,), s_pos(0.01, 0.5))
    q = ctx.real("q", (1,), s_pos(0.05, 1.5))
    q0 = ctx.real("q0", (1,), s_pos(0.05, 1.5))
    d = ctx.real("d", (1,), s_pos(0.5, 5.0))
    for x in (m, m0, g0, q, d):
        ctx.require(x > 0.0)
    ctx.require(q0 > 1e-15)
    return m, m0, g0, q, q0, d


def _mk_bprime(L):
    def g(ctx):
        tf = ctx.tf
        bw = ctx.mod("breit_wigner")
        m, m0, g0, q, q0, d = _inputs(ctx)
        z = ctx.real("z", (1,), s_pos(-3.0, 5.0))
        ctx.eq("polynomial", bw.Bprime_polynomial(L, z), theta2(tf, L, z), clause="Bprime_polynomial(L=%d, z) == |theta_L(i sqrt z)|^2 (monic), all z" % L)
        B = bw.Bprime(L, q, q0, d)
        ratio = theta2(tf, L, (q0 * d) * (q0 * d)) / theta2(tf, L, (q * d) * (q * d))
        ctx.eq("Bprime.square", B * B, ratio, clause="Bprime(L,q,q0,d)^2 == |theta_L(i q0 d)|^2 / |theta_L(i q d)|^2")
        ctx.holds("Bprime.positive", B > 0.0, clause="Bprime(L,q,q0,d) > 0")
        ctx.eq("Bprime.unit", bw.Bprime(L, q, q, d), 1.0, clause="Bprime(L,q,q,d) == 1")
        Bq2 = bw.Bprime_q2(L, q * q, q0 * q0, d)
        ctx.eq("Bprime_q2.square", Bq2 * Bq2, ratio, clause="Bprime_q2(L,q^2,q0^2,d)^2 == Bprime(L,q,q0,d)^2 above threshold")
        ctx.holds("Bprime_q2.positive", Bq2 > 0.0, clause="Bprime_q2 > 0 above threshold")
        # below threshold (q^2 < 0): the statement says the q^2-based variants stay finite
        q2n = ctx.real("q2n", (1,), s_pos(-2.0, -0.01))
        ctx.require(q2n < 0.0)
        Bn = bw.Bprime_q2(L, q2n, q0 * q0, d)
        rn = theta2(tf, L, (q0 * d) * (q0 * d)) / theta2(tf, L, q2n * d * d)
        ctx.eq("Bprime_q2.below_threshold", Bn * Bn, tf.where(rn > 0.0, rn, 1.0), skip_def=True,
               clause="for q^2 < 0: Bprime_q2^2 == max-guarded ratio wherever the denominator polynomial is non-zero "
                      "(whether it has a zero for q^2 < 0 is decided exactly by breit_wigner.Bprime_q2/poles_below_threshold)")
        G = bw.Gamma(m, g0, q, q0, L, m0, d)
        ctx.eq("Gamma", G, g0 * (q / q0) ** (2 * L + 1) * (m0 / m) * ratio, clause="Gamma(m) == Gamma0 (q/q0)^(2L+1) (m0/m) B_L'^2")
        ctx.eq("Gamma.at_m0", bw.Gamma(m0, g0, q0, q0, L, m0, d), g0, clause="Gamma(m0) == Gamma0 (q = q0 at m = m0)")

    return g


def _mk_bwr(L):
    def g(ctx):
        tf = ctx.tf
        bw = ctx.mod("breit_wigner")
        m, m0, g0, q, q0, d = _inputs(ctx)
        ratio = theta2(tf, L, (q0 * d) * (q0 * d)) / theta2(tf, L, (q * d) * (q * d))
        G = g0 * (q / q0) ** (2 * L + 1) * (m0 / m) * ratio
        r = bw.BWR(m, m0, g0, q, q0, L, d)
        den = tf.complex(m0 * m0 - m * m, -m0 * G)
        prod = r * den
        ctx.eq("inverse.re", tf.math.real(prod), 1.0, clause="BWR(m) * (m0^2 - m^2 - i m0 Gamma(m)) == 1 (real part)")
        ctx.eq("inverse.im", tf.math.imag(prod), 0.0, clause="BWR(m) * (m0^2 - m^2 - i m0 Gamma(m)) == 1 (imaginary part)")
        # Im BWR = m0 Gamma / |den|^2 : equality with a manifestly positive right-hand side
        ctx.eq("imag_positive", tf.math.imag(r), m0 * G / ((m0 * m0 - m * m) ** 2 + (m0 * G) ** 2),
               clause="Im BWR(m) == m0 Gamma / |m0^2 - m^2 - i m0 Gamma|^2  (> 0 for Gamma0 > 0)")
        r0 = bw.BWR(m0, m0, g0, q0, q0, L, d)
        ctx.eq("at_m0.re", tf.math.real(r0), 0.0, clause="Re BWR(m0) == 0")
        ctx.eq("at_m0.im", tf.math.imag(r0), 1.0 / (m0 * g0), clause="Im BWR(m0) == 1/(m0 Gamma0)  (BWR(m0) = +i/(m0 Gamma0))")
        # q^2-based variants agree above threshold
        r2 = bw.BWR2(m, m0, g0, q * q, q0 * q0, L, d)
        ctx.eq("BWR2.re", tf.math.real(r2), tf.math.real(r), clause="BWR2(q^2) == BWR(q) above threshold (real part)")
        ctx.eq("BWR2.im", tf.math.imag(r2), tf.math.imag(r), clause="BWR2(q^2) == BWR(q) above threshold (imaginary part)", rlimit=60000000)
        G2 = bw.Gamma2(m, g0, q * q, q0 * q0, L, m0, d)
        ctx.eq("Gamma2.re", tf.math.real(G2), G, clause="Gamma2(q^2) == Gamma(q) above threshold", rlimit=60000000)
        ctx.eq("Gamma2.im", tf.math.imag(G2), 0.0, clause="Gamma2(q^2) is real above threshold")

    return g


@group(["C15"], "breit_wigner.BW", ["breit_wigner:BW"])
def bw_const_width(ctx):
    tf = ctx.tf
    bw = ctx.mod("breit_wigner")
    m, m0, g0, q, q0, d = _inputs(ctx)
    r = bw.BW(m, m0, g0)
    prod = r * tf.complex(m0 * m0 - m * m, -m0 * g0)
    ctx.eq("inverse.re", tf.math.real(prod), 1.0, clause="BW(m) * (m0^2 - m^2 - i m0 Gamma0) == 1 (real part)")
    ctx.eq("inverse.im", tf.math.imag(prod), 0.0, clause="BW(m) * (m0^2 - m^2 - i m0 Gamma0) == 1 (imaginary part)")
    ctx.eq("imag_positive", tf.math.imag(r), m0 * g0 / ((m0 * m0 - m * m) ** 2 + (m0 * g0) ** 2), clause="Im BW == m0 Gamma0/|...|^2 > 0")
    r0 = bw.BW(m0, m0, g0)
    ctx.eq("at_m0.re", tf.math.real(r0), 0.0, clause="Re BW(m0) == 0")
    ctx.eq("at_m0.im", tf.math.imag(r0), 1.0 / (m0 * g0), clause="BW(m0) == i/(m0 Gamma0)")


for _L in range(0, 9):
    group(["C15"], "breit_wigner.Bprime_Gamma/L=%d" % _L,
          ["breit_wigner:Bprime_polynomial", "breit_wigner:Bprime", "breit_wigner:Bprime_q2", "breit_wigner:Gamma", "breit_wigner:Bprime_num"], cost=1 + _L)(_mk_bprime(_L))
    group(["C15"], "breit_wigner.BWR/L=%d" % _L,
          ["breit_wigner:BWR", "breit_wigner:BWR2", "breit_wigner:Gamma2"], cost=2 + _L)(_mk_bwr(_L))


@group(["C15"], "breit_wigner.Bprime_q2/poles_below_threshold", ["breit_wigner:get_bprime_coeff", "breit_wigner:Bprime_polynomial", "breit_wigner:Bprime_q2"],
       env="shim", kind="G", cost=1,
       bound="L = 0..8: exact real-root count (Sturm sequences, sympy over QQ) of the denominator polynomial the code evaluates, on z = q^2 d^2 < 0",
       assumes=["the denominator of Bprime_q2 is Bprime_polynomial(L, q^2 d^2) (proved: breit_wigner.Bprime_Gamma/L=*/Bprime_q2.square, polynomial)"])
def poles_below_threshold(ctx):
    import sympy

    bw = ctx.mod("breit_wigner")
    z = sympy.Symbol("z")
    for L in range(9):
        coeffs = [sympy.Rational(int(c)) for c in bw.get_bprime_coeff(L)]  # highest power first (exact integers: bprime_coeff/exact)
        poly = sympy.Poly(sum(c * z ** (len(coeffs) - 1 - i) for i, c in enumerate(coeffs)), z, domain="QQ")
        n = poly.count_roots(-sympy.oo, 0)
        wit = None
        if n:
            iv = [(a, b) for (a, b), mult in poly.intervals() if b <= 0][:1]
            (a, b) = iv[0]
            mid = (a + b) / 2
            wit = {"L": L, "denominator_polynomial_in_z": str(poly.as_expr()), "real_roots_with_z<0": int(n),
                   "isolating_interval_for_z=q2*d^2": [str(a), str(b)], "example": "d = 1, q2 in that interval: |Bprime_q2| is unbounded",
                   "value_at_interval_midpoint": str(poly.eval(mid))}
        ctx.count(key=L, sample={"L": L, "roots_below_zero": int(n)})
        ctx.check("pole_free/L=%d" % L, n == 0,
                  clause="the denominator |theta_L(i sqrt z)|^2 of Bprime_q2 has no real zero for z = q^2 d^2 < 0, so the q^2-based barrier factor is finite below threshold (L=%d)" % L,
                  detail="%d real zero(s) at negative z" % n, witness=wit)


@group(["C15"], "formula.Bprime_polynomial/exact_and_pure", ["formula:Bprime_polynomial", "breit_wigner:get_bprime_coeff", "breit_wigner:Bprime_polynomial"],
       env="shim", kind="G", cost=1,
       bound="L = 0..8 (thorough 0..12): the sympy-side polynomial on the 1st, 2nd and 3rd call in one process, and the numeric-side coefficient table before / after those calls",
       assumes=["exact comparison of sympy polynomials over QQ"])
def formula_bprime_pure(ctx):
    import sympy

    formula = ctx.mod("formula")
    bw = ctx.mod("breit_wigner")
    z = sympy.Symbol("z")
    lmax = 12 if ctx.tier == "thorough" else 8
    bad_val = bad_state = None
    for L in range(lmax + 1):
        cs = theta2_coeffs(L)  # c_0 .. c_L, monic normalisation
        want = sympy.Poly(sum(sympy.Rational(c.numerator, c.denominator) * z ** i for i, c in enumerate(cs)), z)
        before = [int(c) for c in bw.get_bprime_coeff(L)]
        for call in (1, 2, 3):
            got = sympy.Poly(sympy.expand(formula.Bprime_polynomial(L, z)), z)
            ctx.count(key=(L, call), sample={"L": L, "call": call})
            # coefficients compared as exact rationals (the literal table spells 225 as 225.0: the same number)
            same = [sympy.Rational(c) for c in got.all_coeffs()] == [sympy.Rational(c) for c in want.all_coeffs()]
            if not same and bad_val is None:
                bad_val = {"L": L, "call_number_in_this_process": call, "got": str(got.as_expr()), "want": str(want.as_expr())}
            after = [int(c) for c in bw.get_bprime_coeff(L)]
            if after != before and bad_state is None:
                bad_state = {"L": L, "after_call_number": call, "get_bprime_coeff_before": before, "get_bprime_coeff_after": after}
    ctx.check("sympy_polynomial_exact_on_every_call", bad_val is None,
              clause="formula.Bprime_polynomial(L, z) == |theta_L(i sqrt z)|^2 (monic, exact over QQ) on the first, second and third call in one process",
              detail=str(bad_val), witness=bad_val)
    ctx.check("numeric_table_unchanged_by_symbolic_calls", bad_state is None,
              clause="breit_wigner.get_bprime_coeff(L) returns the same coefficients after formula.Bprime_polynomial(L, .) was called (the cached table is not mutated)",
              detail=str(bad_state), witness=bad_state)


# ---------------------------------------------------------------------------------------------
# Gounaris-Sakurai (breit_wigner.GS and its helper functions): structure, pole clauses, textbook form of the helpers (log uninterpreted)
# ---------------------------------------------------------------------------------------------
def _kallen_k(tf, s, a, b):
    """break-up momentum at invariant mass squared s (spec, textbook)"""
    return tf.sqrt((s - (a + b) * (a + b)) * (s - (a - b) * (a - b)) / (4.0 * s))


def _mk_gs(L):
    def g(ctx):
        tf = ctx.tf
        bw = ctx.mod("breit_wigner")
        m, m0, g0, q, q0, d = _inputs(ctx)
        ma = ctx.real("ma", (1,), s_pos(0.1, 0.2))
        mb = ctx.real("mb", (1,), s_pos(0.1, 0.2))
        ctx.require(ma > 0.01)
        ctx.require(mb > 0.01)
        ctx.require(m - ma - mb > 0.01, "above the two-pion threshold")
        ctx.require(m0 - ma - mb > 0.01, "nominal mass above the two-pion threshold")
        s, s0 = m * m, m0 * m0
        # --- helpers against their textbook form (pi is the code's own decimal literal: the contract is about the STRUCTURE, A-REAL)
        PI = 3.14159265359
        k = bw.twoBodyCMmom(m, ma, mb)
        ctx.eq("twoBodyCMmom", k, _kallen_k(tf, s, ma, mb), clause="twoBodyCMmom(m, a, b) == sqrt(lambda(m^2, a^2, b^2)) / (2 m) above threshold")
        rs = tf.sqrt(s)   # the code takes sqrt(s) of the invariant mass squared it is given; for s = m^2, m > 0 this is m
        ctx.eq("sqrt_s", rs, m, clause="sqrt(m^2) == m for m > 0")
        ks = bw.twoBodyCMmom(rs, ma, mb)
        lg = tf.math.log((rs + 2.0 * ks) / (ma + mb))
        ctx.eq("hFun", bw.hFun(s, ma, mb), 2.0 * (ks / rs) * lg / PI, clause="h(s) == (2/pi) (k/sqrt s) ln((sqrt s + 2k)/(m_a + m_b))")
        ctx.eq("dh_dsFun", bw.dh_dsFun(s, ma, mb), bw.hFun(s, ma, mb) * (1.0 / (8.0 * k * k) - 1.0 / (2.0 * s)) + 1.0 / (2.0 * PI * s),
               clause="h'(s) == h(s) (1/(8 k^2) - 1/(2 s)) + 1/(2 pi s)")
        # --- f(s): vanishes at the pole mass, so the denominator at m = m0 is purely imaginary
        ctx.eq("fsFun.at_pole", bw.fsFun(s0, s0, g0, ma, mb), 0.0, clause="f(m0^2) == 0")
        k0 = bw.twoBodyCMmom(m0, ma, mb)
        f_spec = g0 * s0 / (k0 * k0 * k0) * (k * k * (bw.hFun(s, ma, mb) - bw.hFun(s0, ma, mb)) + (s0 - s) * k0 * k0 * bw.dh_dsFun(s0, ma, mb))
        ctx.eq("fsFun", bw.fsFun(s, s0, g0, ma, mb), f_spec, clause="f(s) == Gamma0 m0^2/k0^3 [k^2 (h(s) - h(m0^2)) + (m0^2 - s) k0^2 h'(m0^2)]")
        # --- GS: D / (m0^2 - m^2 + f(s) - i m0 Gamma(m))
        ratio = theta2(tf, L, (q0 * d) * (q0 * d)) / theta2(tf, L, (q * d) * (q * d))
        G = g0 * (q / q0) ** (2 * L + 1) * (m0 / m) * ratio
        D = 1.0 + bw.dFun(s0, ma, mb) * g0 / m0
        r = bw.GS(m, m0, g0, q, q0, L, d, c_daug2Mass=ma, c_daug3Mass=mb)
        r0 = bw.GS(m0, m0, g0, q0, q0, L, d, c_daug2Mass=ma, c_daug3Mass=mb)
        ctx.eq("at_pole.re", tf.math.real(r0), 0.0, clause="Re GS(m0) == 0")
        ctx.eq("at_pole.im", tf.math.imag(r0) * (m0 * g0), D, clause="Im GS(m0) == (1 + d Gamma0/m0) / (m0 Gamma0)  (the documented i/(m0 Gamma0) up to the GS normalisation constant)")

    return g


for _L in (0, 1, 2):
    group(["C15"], "breit_wigner.GS/L=%d" % _L, ["breit_wigner:GS", "breit_wigner:fsFun", "breit_wigner:hFun", "breit_wigner:dh_dsFun", "breit_wigner:twoBodyCMmom", "breit_wigner:Gamma"],
          cost=6, no_native=True, tiers=("quick", "thorough") if _L == 1 else ("thorough",),
          assumes=["pi enters the code as the decimal literal 3.14159265359; the contract uses the same literal (structure of the formula; the numerical value of GS_rho against its "
                   "documentation is the bounded group iface.lineshape/bw_family)", "log is uninterpreted; d(m0) (dFun) enters only through the normalisation constant D"])(_mk_gs(_L))

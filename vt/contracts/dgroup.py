"""C12 (and the kernel of C01 / C02): D(R1) D(R2) = D(R1 R2) for the real `tf_pwa.dfun.D_matrix_conj`.

The argument uses the polynomial (symmetric-power) representation P^j of 2x2 complex matrices as a ghost spec function:
on homogeneous polynomials of degree 2j in (x, y), (U.f)(x, y) = f((x, y) U), basis e_m = x^(j+m) y^(j-m) / sqrt((j+m)! (j-m)!),
U.e_m = sum_m' P^j_{m' m}(U) e_m'.   P^(1/2)(U) = U.

  (A) representation:  D_matrix_conj(alpha, beta, gamma, 2j)[m1, m2] == conj( P^j_{m1 m2}( Rz(alpha) Ry(beta) Rz(gamma) ) )
      with Rz, Ry and the product taken from the REAL tf_pwa.angle.SU2M (so the Euler-angle and the sign/ordering conventions of the two
      modules are tied together), for all angles;
  (B) homomorphism (lemma about the spec function, all 2x2 complex matrices X, Y):   P^j(X Y) == P^j(X) P^j(Y).
Consequence (composition by substitution, DESIGN 3/C12): for rotations given by Euler angles, with (a12, b12, g12) the Euler angles
that SU2M.get_euler_angle extracts from U1 U2 (proved to rebuild U1 U2: angle.SU2M.get_euler_angle/reconstruct[*][*]),
    D*(a12, b12, g12) = conj P(U1 U2) = conj P(U1) conj P(U2) = D*(a1, b1, g1) D*(a2, b2, g2),
and the same without conjugation.  Together with unitarity (dfun.D_matrix_conj/2j=*) this is the common-rotation invariance used by
C01 (rotations of the event) and C02 (change of alignment reference).
"""
import math
from fractions import Fraction

import numpy as np

from vt.core import terms as tm
from vt.core.oblig import group


def _rep_table(two_j):
    """{(row, col): {(i,k,l,n): Fraction coefficient}} for P_{m' m} as a polynomial  sum coef a^i b^k c^l d^n  times a sqrt factor;
    rows/cols indexed 0..2j for m = -j..j ascending.  Returns (table, sqrt_factor[row][col] as Fraction under the root)."""
    import sympy

    a, b, c, d, x, y = sympy.symbols("a b c d x y")
    n = two_j
    table, root = {}, {}
    for col in range(n + 1):  # m = -j + col ; j+m = col ; j-m = n-col
        jm, jmm = col, n - col
        expr = sympy.expand((a * x + c * y) ** jm * (b * x + d * y) ** jmm)
        poly = sympy.Poly(expr, x, y)
        for row in range(n + 1):
            jm2, jmm2 = row, n - row
            coef = poly.coeff_monomial(x ** jm2 * y ** jmm2)
            cp = sympy.Poly(coef, a, b, c, d)
            table[(row, col)] = {tuple(int(e) for e in mon): Fraction(int(cf)) for mon, cf in cp.terms()} if coef != 0 else {}
            # U.e_m = (..)/norm_m = sum coef x^.. y^.. / norm_m = sum coef norm_m' / norm_m  e_m'
            root[(row, col)] = Fraction(math.factorial(jm2) * math.factorial(jmm2), math.factorial(jm) * math.factorial(jmm))
    return table, root


def _cpow(z, n):
    r = tm.C(tm.ONE, tm.ZERO)
    for _ in range(n):
        r = r * z
    return r


def poly_rep(two_j, U):
    """P^j(U) as a (2j+1) x (2j+1) array of tm.C; U = [[a, b], [c, d]] of tm.C"""
    table, root = _rep_table(two_j)
    (a, b), (c, d) = U
    n = two_j
    out = np.empty((n + 1, n + 1), dtype=object)
    pw = {nm: [_cpow(z, k) for k in range(n + 1)] for nm, z in (("a", a), ("b", b), ("c", c), ("d", d))}
    for (row, col), mons in table.items():
        acc = tm.C(tm.ZERO, tm.ZERO)
        for (i, k, l, m_), cf in mons.items():
            term = pw["a"][i] * pw["b"][k] * pw["c"][l] * pw["d"][m_]
            cft = tm.const(cf)
            acc = acc + tm.C(tm.mul(cft, term.re), tm.mul(cft, term.im))
        s = tm.sqrt_const(root[(row, col)])
        out[row, col] = tm.C(tm.mul(s, acc.re), tm.mul(s, acc.im))
    return out


def _csym(ctx, name):
    re = ctx.real(name + "r", (), sample=lambda rng: rng.uniform(-1.2, 1.2))
    im = ctx.real(name + "i", (), sample=lambda rng: rng.uniform(-1.2, 1.2))
    return tm.C(re.a[()], im.a[()])


def _mk_rep(two_j):
    def g(ctx):
        tf, shim = ctx.tf, ctx.shim
        dfun = ctx.mod("dfun")
        SU2M = ctx.mod("angle").SU2M
        smp = lambda rng: [rng.uniform(-3.0, 3.0)]  # noqa: E731
        al, be, ga = (ctx.real(n_, (1,), smp) for n_ in ("alpha", "beta", "gamma"))
        U = (SU2M.Rotation_z(al) * SU2M.Rotation_y(be) * SU2M.Rotation_z(ga))["x"]
        Ue = [[tm.cx(shim._arr(U[i][k]).reshape(-1)[0]) for k in range(2)] for i in range(2)]
        # U = [[a, b], [c, d]] acts on (x, y) = (spin up, spin down): rows/cols of SU2M are ordered (+1/2, -1/2), as poly_rep expects;
        # poly_rep returns the matrix in the basis ascending in m, as D_matrix_conj
        Ua = Ue
        with tm.float_recogniser(tm.sqrt_rational_recogniser(max_den=10**4)):
            D = dfun.D_matrix_conj(al, be, ga, two_j)
        P = poly_rep(two_j, Ua)
        Da = D.a.reshape(two_j + 1, two_j + 1)
        for r in range(two_j + 1):
            for c in range(two_j + 1):
                got = tm.cx(Da[r, c])
                want = P[r, c]
                S = lambda t: shim.STensor(shim._arr(t))  # noqa: E731
                ctx.eq("rep[%d][%d].re" % (r, c), S(got.re), S(want.re), clause="Re D_matrix_conj(alpha,beta,gamma)[m1,m2] == Re conj P^j_{m1 m2}(Rz(alpha) Ry(beta) Rz(gamma)), 2j=%d" % two_j)
                ctx.eq("rep[%d][%d].im" % (r, c), S(got.im), S(tm.neg(want.im)), clause="Im D_matrix_conj(alpha,beta,gamma)[m1,m2] == -Im P^j_{m1 m2}(Rz Ry Rz), 2j=%d" % two_j)

    return g


def _mk_hom(two_j):
    def g(ctx):
        shim = ctx.shim
        X = [[_csym(ctx, "x%d%d" % (i, k)) for k in range(2)] for i in range(2)]
        Y = [[_csym(ctx, "y%d%d" % (i, k)) for k in range(2)] for i in range(2)]
        XY = [[X[i][0] * Y[0][k] + X[i][1] * Y[1][k] for k in range(2)] for i in range(2)]
        PX, PY, PXY = poly_rep(two_j, X), poly_rep(two_j, Y), poly_rep(two_j, XY)
        n = two_j + 1
        S = lambda t: shim.STensor(shim._arr(t))  # noqa: E731
        for r in range(n):
            for c in range(n):
                acc = tm.C(tm.ZERO, tm.ZERO)
                for k in range(n):
                    acc = acc + PX[r, k] * PY[k, c]
                ctx.eq("hom[%d][%d].re" % (r, c), S(PXY[r, c].re), S(acc.re), clause="Re P^j(XY)[r][c] == Re (P^j(X) P^j(Y))[r][c] for all complex 2x2 X, Y (2j=%d)" % two_j)
                ctx.eq("hom[%d][%d].im" % (r, c), S(PXY[r, c].im), S(acc.im), clause="Im P^j(XY)[r][c] == Im (P^j(X) P^j(Y))[r][c] for all complex 2x2 X, Y (2j=%d)" % two_j)

    return g


for _j2 in range(1, 9):
    _tiers = ("quick", "thorough") if _j2 <= 3 else ("thorough",)
    group(["C12", "C01", "C02"] if _j2 <= 3 else ["C12"], "dfun.D_matrix_conj/representation/2j=%d" % _j2,
          ["dfun:D_matrix_conj", "dfun:small_d_matrix", "dfun:exp_i", "angle:SU2M.Rotation_z", "angle:SU2M.Rotation_y", "angle:SU2M.__mul__"],
          tiers=_tiers, cost=2 + 2 * _j2, no_native=True,
          assumes=["d-weight table floats within 4 ulp of +-sqrt(p/q) read as that number (ground contract dfun.small_d_weight)"])(_mk_rep(_j2))
    group(["C12", "C01", "C02"] if _j2 <= 3 else ["C12"], "dfun.D_matrix_conj/homomorphism_lemma/2j=%d" % _j2, ["dfun:D_matrix_conj"],
          tiers=_tiers, cost=2 + 3 * _j2, no_native=True,
          assumes=["ghost lemma about the spec function P^j only (no repository code is executed); it carries the group law from SU(2) to the D-matrices"])(_mk_hom(_j2))

"""C09: tf_pwa/params_trans.py ParamsTrans (what VarsManager.error_trans / ConfigLoader.params_trans hand out) run for REAL on
symbolic parameter values, a symbolic positive semi-definite covariance V = L L^T (L lower triangular, 6 free symbols) and derived
quantities of rank 0, 1 and 2 (a NON-square 2 x 3 matrix, so a transposed Jacobian cannot hide), alone and inside list / tuple /
dict containers.  TensorFlow's tapes are modelled by mechanical differentiation (shim `_GradientTape.gradient` / `.jacobian`).

    get_error(f)[i..]         == sqrt( sum_kl  (d f[i..]/d theta_k) V_kl (d f[i..]/d theta_l) )        (and >= 0)
    get_error_matrix(f)[a][b] == sum_kl (d f_a/d theta_k) V_kl (d f_b/d theta_l)                      (f flattened in C order)
    get_grad(f)[k]            == d f / d theta_k

Added after the seeded change C09-params_trans_rank2_transposed (missed: ParamsTrans was only exercised by the C17 state checks)."""
import numpy as np

from vt.core import terms as tm
from vt.core.oblig import group


class _VM:
    def __init__(self, variables):
        self.trainable_variables = variables


def _setup(ctx):
    tf, shim = ctx.tf, ctx.shim
    th_t = [ctx.real("theta%d" % i, (), lambda r: r.uniform(0.4, 2.0)) for i in range(3)]
    var = [tf.Variable(t) for t in th_t]
    th = [t.a[()] for t in th_t]
    L = [[None] * 3 for _ in range(3)]
    for i in range(3):
        for j in range(3):
            L[i][j] = ctx.real("L%d%d" % (i, j), (), lambda r: r.uniform(-0.3, 0.3)).a[()] if j <= i else tm.ZERO
    V = np.empty((3, 3), dtype=object)
    for i in range(3):
        for j in range(3):
            acc = tm.ZERO
            for k in range(3):
                acc = tm.add(acc, tm.mul(L[i][k], L[j][k]))
            V[i, j] = acc
    return tf, shim, var, th, V


def _quantities(tf, var):
    a, b, c = var

    def scalar():
        return a * b + c * c * a

    def vector():
        return tf.stack([a * b, b * b * c, a + 2.0 * c, c * c * c])

    def matrix():
        return tf.stack([tf.stack([a * b, 5.0 * c, a * c]), tf.stack([b * b, b * c * c, a + b + c])])

    return scalar, vector, matrix


def _spec_err2(th, V, e):
    g = [tm.diff([tm._l(e)], {t: tm.ONE})[0] for t in th]
    acc = tm.ZERO
    for k in range(3):
        for l in range(3):
            acc = tm.add(acc, tm.mul(tm.mul(g[k], V[k, l]), g[l]))
    return acc, g


@group(["C09"], "params_trans.ParamsTrans/first_order_propagation", ["params_trans:ParamsTrans.get_error", "params_trans:ParamsTrans.get_error_matrix",
                                                                     "params_trans:ParamsTrans.get_grad", "params_trans:ParamsTrans.trans",
                                                                     "variable:VarsManager.error_trans"], no_native=True, cost=6,
       assumes=["A-AD: tf.GradientTape.gradient / .jacobian return the mathematical derivative of the recorded computation (modelled by terms.diff)",
                "the covariance handed in is symmetric positive semi-definite (V = L L^T)"],
       bound="three parameters; derived quantities: polynomial scalar, 4-vector, 2 x 3 matrix; containers list / tuple / dict")
def params_trans(ctx):
    tf, shim, var, th, V = _setup(ctx)
    PT = ctx.mod("params_trans").ParamsTrans
    PT_mod = ctx.mod("params_trans")
    PT_mod.print = lambda *a, **k: None  # get_grad prints the gradient
    Vt = shim.STensor(V)
    S = lambda t: shim.STensor(shim._arr(t))  # noqa: E731
    scalar, vector, matrix = _quantities(tf, var)

    def flag(name, ok, clause, detail=""):
        # a ground fact as an obligation of the symbolic context: 1 == 1 holds, 0 == 1 is refuted
        ctx.eq(name, S(tm.const(1 if ok else 0)), S(tm.ONE), clause=clause + ((" [" + detail + "]") if detail and not ok else ""))

    def run(build, method="get_error"):
        pt = PT(_VM(var), Vt)
        with pt.trans() as f:
            vals = build()
        return vals, getattr(f, method)(vals)

    def cmp_err(tag, vals, err):
        va, ea = shim._arr(vals), shim._arr(err)
        flag(tag + "/shape", tuple(ea.shape) == tuple(va.shape), "get_error(f) has the shape of f", "%s vs %s" % (ea.shape, va.shape))
        if tuple(ea.shape) != tuple(va.shape):
            return
        for idx in np.ndindex(*va.shape) if va.shape else [()]:
            e2, _ = _spec_err2(th, V, va[idx])
            nm = tag + "/err" + "".join("[%d]" % i for i in idx)
            ctx.eq(nm, S(tm.mul(tm._l(ea[idx]), tm._l(ea[idx]))), S(e2), clause="get_error(f)[i..]^2 == sum_kl (d f[i..]/d theta_k) V_kl (d f[i..]/d theta_l), same index on both sides")
            ctx.holds(nm + "/nonneg", S(tm._l(ea[idx])) >= 0.0, clause="get_error(f)[i..] >= 0")

    vals, err = run(scalar)
    cmp_err("scalar", vals, err)
    vals, err = run(vector)
    cmp_err("vector", vals, err)
    vals, err = run(matrix)
    cmp_err("matrix2x3", vals, err)
    # containers
    vals, err = run(lambda: [scalar(), matrix()])
    flag("list/type", isinstance(err, list) and len(err) == 2, "get_error of a list is a list of the same length")
    if isinstance(err, list) and len(err) == 2:
        cmp_err("list/0", vals[0], err[0])
        cmp_err("list/1", vals[1], err[1])
    vals, err = run(lambda: (vector(), scalar()))
    flag("tuple/type", isinstance(err, tuple) and len(err) == 2, "get_error of a tuple is a tuple of the same length")
    if isinstance(err, tuple) and len(err) == 2:
        cmp_err("tuple/0", vals[0], err[0])
        cmp_err("tuple/1", vals[1], err[1])
    vals, err = run(lambda: {"m": matrix(), "s": scalar()})
    flag("dict/keys", isinstance(err, dict) and sorted(err) == ["m", "s"], "get_error of a dict has the same keys")
    if isinstance(err, dict) and sorted(err) == ["m", "s"]:
        cmp_err("dict/m", vals["m"], err["m"])
        cmp_err("dict/s", vals["s"], err["s"])
    # gradient
    vals, g = run(scalar, "get_grad")
    ga = shim._arr(g).reshape(-1)
    _, gs = _spec_err2(th, V, shim._arr(vals)[()])
    for k in range(3):
        ctx.eq("get_grad[%d]" % k, S(tm._l(ga[k])), S(gs[k]), clause="get_grad(f)[k] == d f/d theta_k, in the order of vm.trainable_variables")
    # covariance of a derived vector / matrix / list of scalars
    real_np = PT_mod.np
    PT_mod.np = shim.NpProxy()
    try:
        for tag, build in (("vector", vector), ("matrix2x3", matrix), ("list", lambda: [a_() for a_ in (scalar, lambda: var[0] * var[2], lambda: var[1] * var[1])])):
            vals, cov = run(build, "get_error_matrix")
            flat = [tm._l(e) for v_ in (vals if isinstance(vals, list) else [vals]) for e in shim._arr(v_).reshape(-1)]
            cov = np.asarray(cov, dtype=object) if not isinstance(cov, shim.STensor) else cov.a
            ca = np.empty(cov.shape, dtype=object)
            for idx in np.ndindex(*cov.shape):  # numpy on tensors: entries may be 0-d symbolic tensors
                e = cov[idx]
                ca[idx] = shim.elems(e)[0] if isinstance(e, shim.STensor) else tm._l(e)
            n = len(flat)
            flag("error_matrix/%s/shape" % tag, tuple(ca.shape) == (n, n), "get_error_matrix(f) is n x n for n derived numbers", str(ca.shape))
            if tuple(ca.shape) != (n, n):
                continue
            gr = [[tm.diff([e], {t: tm.ONE})[0] for t in th] for e in flat]
            for i in range(n):
                for j in range(i, n):
                    acc = tm.ZERO
                    for k in range(3):
                        for l in range(3):
                            acc = tm.add(acc, tm.mul(tm.mul(gr[i][k], V[k, l]), gr[j][l]))
                    ctx.eq("error_matrix/%s[%d][%d]" % (tag, i, j), S(tm._l(ca[i, j])), S(acc), clause="get_error_matrix(f)[a][b] == sum_kl (d f_a/d theta_k) V_kl (d f_b/d theta_l), f flattened in C order")
    finally:
        PT_mod.np = real_np

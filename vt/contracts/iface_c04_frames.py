"""C04, two further bounded groups at the public interface (added after seeded changes C04-chain_boost_direct and
C04-stale_bw_l_across_models were missed by iface.C04/closed_form_a/b):

  moving_parent   the statement says "computed independently from the four-momenta": the events need not be given in the parent rest
                  frame.  The same closed form (c04_reference of iface_amp, evaluated on the momenta boosted back to the parent rest
                  frame by the textbook boost) must be reproduced for events in which the parent moves.
  spin_scan       the statement quantifies over all spin assignments; a scan builds them one after the other IN ONE PROCESS WITH THE
                  SAME PARTICLE NAMES (closed_form_a/b give every assignment its own names).  Every assignment must reproduce its own
                  closed form whatever was built and evaluated before.
"""
import copy
import math

import numpy as np

from vt.contracts import iface_amp as IA
from vt.core.oblig import group
from vt.iface import models as M

_FUNCS = ["cal_angle:cal_chain_boost", "cal_angle:cal_helicity_angle", "angle:LorentzVector.rest_vector", "amp.core:Particle.get_amp",
          "amp.core:HelicityDecay.get_cg_matrix", "particle:Decay.get_min_l", "amp.core:HelicityDecay.get_barrier_factor2", "breit_wigner:BWR"]
_ASSUME = ["model: default (BWR) with running width, d = 3.0; the statement's B_J are the ratios B'_J(x, x0, d) of docs/amplitude.rst"]

# boosted events: invariant masses are differences E^2 - p^2 of numbers gamma^2 times larger, q^(2J) (J <= 4) amplifies their relative
# error by 2J / (relative distance to threshold); phase-space events only (no threshold grid), |beta| <= 0.8 (gamma^2 <= 2.8): 1e-7.
MOVING_RTOL = 1e-7
MOVING_TRIPLES = [(0, 1, 2), (1, 2, 3), (2, 3, 4), (3, 4, 0), (4, 0, 1), (2, 2, 2)]
SCAN = [(1, 2, 3), (2, 0, 4), (0, 3, 1), (4, 1, 2), (3, 4, 0), (1, 1, 1), (0, 0, 0), (2, 2, 1)]


def _compare(acc, name, clause, d, ref, rtol, wit):
    tol = rtol * np.maximum(np.abs(d), np.abs(ref)) + 1e-12 * float(np.mean(ref))
    err = np.abs(d - ref)
    ratio = np.where(np.isfinite(err), err / tol, np.inf)
    i = int(np.argmax(ratio))
    ok = bool(ratio[i] <= 1.0)
    acc.add(name, clause, ok, float(ratio[i]), None if ok else wit(i, ratio))


@group(["C04"], "iface.C04/closed_form_moving_parent", _FUNCS, env="tf", kind="B", assumes=_ASSUME,
       bound="spin triples %s, 3 mass sets, every non-empty subset of the three chains; 48 (quick) / 1024 (thorough) phase-space events, each boosted by its "
             "own seeded velocity |beta| in [0.05, 0.8] (and all by one common velocity); rtol 1e-7" % (MOVING_TRIPLES,))
def c04_moving(ctx):
    n_ev = 48 if ctx.tier == "quick" else 1024
    acc = IA.Acc(ctx)
    cl = {"per_event_boost": "events given in a frame where the parent moves (a different velocity per event): density == closed form of the statement, rtol 1e-7",
          "common_boost": "all events boosted by one common velocity: density == closed form of the statement, rtol 1e-7"}
    for k, c in cl.items():
        acc.declare(k, c)
    msets = list(M.MASS_SETS)
    for di, spins in enumerate(MOVING_TRIPLES):
        mset = msets[di % len(msets)]
        sname = M.spinless_struct(mset, spins)
        st = M.STRUCTS[sname]
        rs = np.random.RandomState(ctx.seed * 977 + di)
        ps = M.phsp(ctx, sname, n_ev, ctx.seed + 50 + di)
        n = len(ps[0])
        u = rs.normal(size=(n, 3))
        u /= np.linalg.norm(u, axis=1, keepdims=True)
        beta1 = u * rs.uniform(0.05, 0.8, size=(n, 1))
        beta2 = np.repeat((u[:1] * 0.6), n, axis=0)
        keys = list(st["chains"])
        _, amp_full = IA._load(ctx, M.build_config(sname, chains=keys))
        params = IA._c04_params(amp_full, sname, rs)
        for S in M.subsets(keys):
            cfg = M.build_config(sname, chains=S)
            config, amp = IA._load(ctx, cfg)
            sub = {k: v for k, v in params.items() if k in amp.get_params()}
            M.set_params(amp, sub)
            ref = IA.c04_reference(sname, S, sub, ps)  # rest-frame momenta as generated
            for name, beta in (("per_event_boost", beta1), ("common_boost", beta2)):
                moved = [M.boost_many(p, beta) for p in ps]
                d = M.density(config, amp, sname, moved)
                # the reference from the moved momenta themselves: back to the parent rest frame by the textbook boost
                tot = moved[0] + moved[1] + moved[2]
                back = [IA._to_rest_frame(p, tot) for p in moved]
                ref2 = IA.c04_reference(sname, S, sub, back)
                assert np.allclose(ref, ref2, rtol=1e-6, atol=1e-9 * float(np.mean(ref))), "harness: reference not frame independent"
                cname = "%s chains=%s" % (sname, ",".join(S))
                ctx.count(key=cname + "|" + name, sample={"config": cname, "spins": list(spins), "events": n})

                def wit(i, ratio, moved=moved, d=d, ref2=ref2, beta=beta, cname=cname, sub=sub, cfg=cfg):
                    return {"config": cname, "spins(R_BC,R_BD,R_CD)": list(spins), "event": i, "beta": [float(x) for x in beta[i]],
                            "density": float(d[i]), "closed_form": float(ref2[i]), "ratio": float(d[i] / ref2[i]) if ref2[i] else None,
                            "n_events_failing": int(np.sum(ratio > 1)), "n_events": len(d), "p4": IA._event(sname, moved, i),
                            "params": {k: float(v) for k, v in sub.items()}, "config_dict": cfg}

                _compare(acc, name, cl[name], d, ref2, MOVING_RTOL, wit)
    acc.flush()


def _scan_struct(mset, spins):
    """the spinless structure of (mset, spins) under particle names that do NOT depend on the spins (tag 'scan<mset>')"""
    base = M.spinless_struct(mset, spins)
    name = base + "_scan"
    if name not in M.STRUCTS:
        st = copy.deepcopy(M.STRUCTS[base])
        st["tag"] = "scan%s" % mset
        M.STRUCTS[name] = st
    return name


@group(["C04"], "iface.C04/closed_form_spin_scan", _FUNCS, env="tf", kind="B", assumes=_ASSUME,
       bound="one mass set; spin assignments %s built and evaluated one after the other in one process under the SAME particle names (fresh ConfigLoader each); "
             "all three chains and each single chain; 48 (quick) / 1024 (thorough) phase-space events + 75 boundary-grid events; rtol 1e-8" % (SCAN,))
def c04_scan(ctx):
    n_ev = 48 if ctx.tier == "quick" else 1024
    acc = IA.Acc(ctx)
    cl = {"first_assignment": "first spin assignment built under these particle names: density == closed form, rtol 1e-8",
          "later_assignment": "spin assignment built after other assignments under the same particle names were built and evaluated in this process: "
                              "density == its own closed form, rtol 1e-8"}
    cl["after_set_params"] = "same model object re-evaluated after set_params changed every mass, width and coupling: density == closed form at the new values, rtol 1e-8"
    for k, c in cl.items():
        acc.declare(k, c)
    mset = list(M.MASS_SETS)[ctx.seed % len(M.MASS_SETS)]
    history = []
    for di, spins in enumerate(SCAN):
        sname = _scan_struct(mset, spins)
        st = M.STRUCTS[sname]
        rs = np.random.RandomState(ctx.seed * 991 + di)
        ps = M.phsp(ctx, sname, n_ev, ctx.seed + 70 + di)
        bd = M.boundary_events(mset, ctx.seed + di)
        ps = [np.concatenate([p, b]) for p, b in zip(ps, bd)]
        keys = list(st["chains"])
        _, amp_full = IA._load(ctx, M.build_config(sname, chains=keys))
        params = IA._c04_params(amp_full, sname, rs)
        for S in [keys] + [[k] for k in keys]:
            cfg = M.build_config(sname, chains=S)
            config, amp = IA._load(ctx, cfg)
            sub = {k: v for k, v in params.items() if k in amp.get_params()}
            M.set_params(amp, sub)
            d = M.density(config, amp, sname, ps)
            ref = IA.c04_reference(sname, S, sub, ps)
            cname = "%s chains=%s" % (sname, ",".join(S))
            name = "first_assignment" if di == 0 else "later_assignment"
            ctx.count(key=cname + "|scan%d" % di, sample={"config": cname, "spins": list(spins), "events": len(d)})

            def wit(i, ratio, d=d, ref=ref, cname=cname, sub=sub, cfg=cfg, ps=ps, spins=spins):
                return {"config": cname, "spins(R_BC,R_BD,R_CD)": list(spins), "assignments_built_before(same names)": [list(h) for h in history],
                        "event": i, "density": float(d[i]), "closed_form": float(ref[i]), "ratio": float(d[i] / ref[i]) if ref[i] else None,
                        "n_events_failing": int(np.sum(ratio > 1)), "n_events": len(d), "p4": IA._event(sname, ps, i),
                        "params": {k: float(v) for k, v in sub.items()}, "config_dict": cfg}

            _compare(acc, name, cl[name], d, ref, IA.C04_RTOL, wit)
            if S is keys:
                # the same model object after a parameter update (mass scan / systematic variation): masses and widths are FIXED parameters
                # by default, set_params still changes them
                rs2 = np.random.RandomState(ctx.seed * 991 + di + 5000)
                sub2 = {k: v for k, v in IA._c04_params(amp, sname, rs2).items() if k in amp.get_params()}
                M.set_params(amp, sub2)
                d2 = M.density(config, amp, sname, ps)
                ref2 = IA.c04_reference(sname, S, sub2, ps)

                def wit2(i, ratio, d2=d2, ref2=ref2, cname=cname, sub=sub, sub2=sub2, cfg=cfg, ps=ps, spins=spins):
                    return {"config": cname, "spins(R_BC,R_BD,R_CD)": list(spins), "sequence": "evaluate at params_1, set_params(params_2), evaluate",
                            "event": i, "density": float(d2[i]), "closed_form": float(ref2[i]), "n_events_failing": int(np.sum(ratio > 1)),
                            "p4": IA._event(sname, ps, i), "params_1": {k: float(v) for k, v in sub.items()}, "params_2": {k: float(v) for k, v in sub2.items()},
                            "config_dict": cfg}

                _compare(acc, "after_set_params", cl["after_set_params"], d2, ref2, IA.C04_RTOL, wit2)
        history.append(spins)
    acc.flush()


SAME_SUB = [((1, 0, 0), {"bc": 1}), ((0, 2, 1), {"bc": 2, "cd": 3}), ((3, 1, 2), {"bd": 1}), ((2, 2, 2), {"bc": 0, "bd": 4, "cd": 2})]


@group(["C04"], "iface.C04/closed_form_same_subsystem", _FUNCS + ["amp.core:DecayGroup.get_amp", "amp.core:rename_data_dict", "amp.core:DecayChain.get_amp_particle"],
       env="tf", kind="B", assumes=_ASSUME,
       bound="structures with a SECOND resonance (own spin, mass, width, couplings) in one, two or all three sub-systems: %s; all chains, and every subset that "
             "contains both resonances of some sub-system; 48 (quick) / 1024 (thorough) phase-space events + 75 boundary-grid events; rtol 1e-8" % (SAME_SUB,))
def c04_same_subsystem(ctx):
    """end-to-end companion of the proved groups amp.stage/same_subsystem/* (added after seeded change C04-rename_data_dict_shared_q0)"""
    from vt.contracts import amp_sym

    n_ev = 48 if ctx.tier == "quick" else 1024
    acc = IA.Acc(ctx)
    cl = {"density": "several resonances in one two-body sub-system: density == |sum over ALL resonances of the closed-form term, each with its own m0, Gamma0, q0, p0, J|^2, rtol 1e-8",
          "after_set_params": "the same model object after set_params changed every mass, width and coupling: density == closed form at the new values, rtol 1e-8"}
    for k, c in cl.items():
        acc.declare(k, c)
    msets = list(M.MASS_SETS)
    for di, (spins, second) in enumerate(SAME_SUB if ctx.tier != "quick" else SAME_SUB[:3]):
        mset = msets[di % len(msets)]
        sname = amp_sym._with_second(M.spinless_struct(mset, spins), second)
        st = M.STRUCTS[sname]
        rs = np.random.RandomState(ctx.seed * 983 + di)
        ps = M.phsp(ctx, sname, n_ev, ctx.seed + 90 + di)
        bd = M.boundary_events(mset, ctx.seed + di)
        ps = [np.concatenate([p, b]) for p, b in zip(ps, bd)]
        keys = list(st["chains"])
        subs = [keys] + [list(S) for S in M.subsets(keys) if len(S) < len(keys) and any(k + "2" in S and k in S for k in ("bc", "bd", "cd"))]
        if ctx.tier == "quick":
            subs = subs[:4]
        for S in subs:
            cfg = M.build_config(sname, chains=S)
            config, amp = IA._load(ctx, cfg)
            for step, name in ((0, "density"), (1, "after_set_params")):
                rs2 = np.random.RandomState(ctx.seed * 983 + di + 7000 * step)
                sub = {k: v for k, v in IA._c04_params(amp, sname, rs2).items() if k in amp.get_params()}
                M.set_params(amp, sub)
                d = M.density(config, amp, sname, ps)
                ref = IA.c04_reference(sname, S, sub, ps)
                cname = "%s chains=%s" % (sname, ",".join(S))
                ctx.count(key=cname + "|" + name, sample={"config": cname, "spins": list(spins), "second": second, "events": len(d)})

                def wit(i, ratio, d=d, ref=ref, cname=cname, sub=sub, cfg=cfg, ps=ps):
                    return {"config": cname, "spins(R_BC,R_BD,R_CD)": list(spins), "second_resonances": second, "event": i, "density": float(d[i]),
                            "closed_form": float(ref[i]), "ratio": float(d[i] / ref[i]) if ref[i] else None, "n_events_failing": int(np.sum(ratio > 1)),
                            "n_events": len(d), "p4": IA._event(sname, ps, i), "params": {k: float(v) for k, v in sub.items()}, "config_dict": cfg}

                _compare(acc, name, cl[name], d, ref, IA.C04_RTOL, wit)
    acc.flush()

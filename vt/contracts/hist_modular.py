"""C20, modular: Hist1D.histogram / WeightedData against an ABSTRACT numpy.histogram (A-LIB made explicit).

numpy.histogram is replaced by a recorder (it forwards to the real routine).  The contract of the wrappers: the weighted count, the squared-weight sum and the entry count are
requested for the SAME bins; the first with the weights, the second with their squares, the third (which decides which bins are empty) without weights; the
returned histogram is assembled from exactly those three results.  With numpy.histogram's own contract (sum over bins == sum over in-range entries) this gives conservation of
sum w and sum w^2 and "a populated bin is never masked", for all data - also signed weights that cancel exactly in a bin.
"""
import numpy as np

from vt.core.oblig import group


@group(["C20"], "histogram.Hist1D.histogram/abstract_np_histogram", ["histogram:Hist1D.histogram", "histogram:WeightedData.__init__"], env="tf", kind="B", cost=2,
       bound="binning given as bins=int, bins=array, bins + range=, positional bins; weights none / positive / signed with exact cancellation in a populated bin; mask_error inf and 0",
       assumes=["numpy.histogram is an abstract routine: returns (per-bin sums of the given weights, edges) for the binning arguments it receives"])
def hist_abstract(ctx):
    hist = ctx.mod("histogram")
    rs = np.random.RandomState(ctx.seed + 9)
    real = np.histogram
    bad = {}
    n = 0
    x = np.concatenate([rs.uniform(0.2, 1, 40), [0.05, 0.06, 0.07, 0.08]])   # the four special entries are ALONE in their bin ([0, 0.1) resp. [0, 0.2))
    w_signed = np.concatenate([rs.uniform(-1, 1, 40), [1.0, -1.0, 0.5, -0.5]])   # the last four fall into one bin of every binning below and cancel exactly
    cases = [((), dict(bins=10, range=(0, 1))), ((10,), dict(range=(0.0, 1.0))), ((np.linspace(0, 1, 11),), {}), ((), dict(bins=np.linspace(0, 1, 6))), ((5,), {})]
    for args, kw in cases:
        for wname, w in (("none", None), ("positive", np.abs(w_signed) + 0.1), ("signed_cancelling", w_signed)):
            for mask in (np.inf, 0.0):
                calls = []

                def rec(m, *a, **k):
                    out = real(m, *a, **k)
                    calls.append((a, {kk: vv for kk, vv in k.items() if kk != "weights"}, k.get("weights"), out))
                    return out

                hist.np.histogram = rec
                try:
                    h = hist.Hist1D.histogram(x, *args, weights=w, mask_error=mask, **kw)
                finally:
                    hist.np.histogram = real
                n += 1
                desc = {"binning": str((args, kw))[:120], "weights": wname, "mask_error": str(mask)}
                ctx.count(key=(str(args) + str(kw), wname, str(mask)), sample=desc)

                def same_binning(c):
                    # the same BINS (edges returned by the routine), however they were requested: re-using the edges of the first call is as good as repeating bins= / range=
                    return np.array_equal(c[3][1], calls[0][3][1])

                if len(calls) < 1 or not all(same_binning(c) for c in calls):   # how many calls are made is not part of the contract
                    bad.setdefault("same_binning_arguments", dict(desc, n_calls=len(calls)))
                    continue
                entries = real(x, *args, **kw)[0]
                if w is None:
                    ok_w = all(c[2] is None for c in calls)
                    cnt, cnt2 = entries, entries
                else:
                    with_w = [c for c in calls if c[2] is not None]
                    ok_w = any(np.array_equal(c[2], w) for c in with_w) and any(np.array_equal(c[2], w ** 2) for c in with_w)
                    cnt, cnt2 = real(x, *args, weights=w, **kw)[0], real(x, *args, weights=w ** 2, **kw)[0]
                if not ok_w:
                    bad.setdefault("weights_and_squares_requested", dict(desc, weights_seen=[None if c[2] is None else "array" for c in calls]))
                want_err2 = np.where(entries == 0, mask, cnt2)
                got_err2 = np.asarray(h.error) ** 2 if np.isfinite(mask) else np.where(np.isinf(h.error), np.inf, np.asarray(h.error) ** 2)
                if not (np.allclose(h.count, cnt, rtol=0, atol=0) and np.allclose(np.where(np.isinf(want_err2), -1.0, want_err2), np.where(np.isinf(got_err2), -1.0, got_err2), rtol=1e-14, atol=0)):
                    k = int(np.argmax(np.abs(np.where(np.isinf(want_err2), 0, want_err2) - np.where(np.isinf(got_err2), 0, got_err2))))
                    bad.setdefault("assembled_from_the_three_results", dict(desc, bin=k, entries=int(entries[k]), sum_w=float(cnt[k]), sum_w2=float(cnt2[k]), error2=float(got_err2[k])))
                if w is not None and abs(float(np.sum(h.count)) - float(np.sum(w[(x >= h.binning[0]) & (x <= h.binning[-1])]))) > 1e-12:
                    bad.setdefault("sum_of_weights_conserved", dict(desc, sum_count=float(np.sum(h.count))))
    for name, clause in (("same_binning_arguments", "every numpy.histogram call of one Hist1D.histogram call bins into the same edges (bins= / range= repeated, or the edges of the first call re-used)"),
                         ("weights_and_squares_requested", "among the calls one carries the weights and one the SQUARED weights (how emptiness of a bin is decided is left to the outcome clause)"),
                         ("assembled_from_the_three_results", "count == weighted sums; error^2 == sum w^2 in every bin that has entries (also when the weights cancel), mask_error only in bins without entries"),
                         ("sum_of_weights_conserved", "sum of the counts == sum of the in-range weights")):
        ctx.check(name, name not in bad, clause=clause + " (%d histograms)" % n, detail=str(bad.get(name)), witness=bad.get(name))

"""C20: the Breit-Wigner inverse-transform sampler (generator/breit_wigner.py) inverts its own cumulative function, for all m0, gamma0, range.

The real `BWGenerator.__init__/__call__/integral/solve` run on symbolic numbers (module-global `np` replaced by the proxy, so `np.arctan`,
`np.tan` build terms).  The identity `integral(solve(u)) - integral(m_min) == u * int_all` contains `atan(tan(theta))`; it is decided in three
obligations on the REAL terms:
  (1) theta (the actual argument of `np.tan` in `solve`) lies in the principal branch (-pi/2, pi/2)           [z3, atan range + monotonicity]
  (2) the actual argument of `np.arctan` inside `integral(solve(u))` equals tan(theta)                        [tower]
  (3) `integral(solve(u))` with that arctan node replaced by theta, minus integral(m_min), equals u * int_all [tower, atan atoms opaque]
and composed by the lemma atan(tan t) = t on (-pi/2, pi/2) (A-MATH, stated).  The density/CDF pair is decided by mechanical differentiation.
"""
from vt.core import terms as tm
from vt.core.oblig import group


def _nodes(root, name):
    return [t for t in tm.postorder([root]) if t.op == "f" and t.args[0] == name]


@group(["C20"], "generator.BWGenerator/cdf_inverse",
       ["generator.breit_wigner:BWGenerator.__init__", "generator.breit_wigner:BWGenerator.__call__", "generator.breit_wigner:BWGenerator.integral",
        "generator.breit_wigner:BWGenerator.solve"],
       no_native=True, cost=10,
       assumes=["A-MATH: atan(tan t) = t for -pi/2 < t < pi/2; tan is increasing on that branch and tan(atan x) = x (used as instantiated lemmas; "
                "their side condition -pi/2 < t < pi/2 is a discharged obligation)",
                "np.arctan / np.tan are the real functions atan / tan (A-OPS)"])
def bw_generator(ctx):
    bw = ctx.mod("generator.breit_wigner")
    bw.np = ctx.shim.NpProxy()
    S = lambda t: ctx.shim.STensor(ctx.shim._arr(t))  # noqa: E731
    m0 = ctx.real("m0", (), lambda r: r.uniform(0.5, 2.0))
    g0 = ctx.real("g0", (), lambda r: r.uniform(0.02, 0.5))
    lo = ctx.real("lo", (), lambda r: r.uniform(0.1, 1.0))
    hi = ctx.real("hi", (), lambda r: r.uniform(1.1, 3.0))
    ctx.require(g0 >= 0.001, "positive width")
    ctx.require(hi - lo >= 0.001, "non-empty mass range")
    E = lambda x: ctx.shim.elems(x)[0]  # noqa: E731
    m0t, g0t, lot, hit = E(m0), E(g0), E(lo), E(hi)
    G = bw.BWGenerator(m0t, g0t, lot, hit)

    # --- density / cumulative pair
    x = ctx.real("x", (), lambda r: r.uniform(0.1, 3.0))
    xt = E(x)
    F = tm._l(G.integral(xt))
    spec_pdf = tm.div(tm.ONE, tm.add(tm.mul(tm.add(xt, tm.neg(m0t)), tm.add(xt, tm.neg(m0t))), tm.div(tm.mul(g0t, g0t), tm.const(4))))
    ctx.eq("call.formula", S(tm._l(G(xt))), S(spec_pdf), clause="__call__(x) == 1 / ((x - m0)^2 + gamma0^2 / 4)  (non-relativistic Breit-Wigner shape)")
    ctx.eq("integral.derivative", S(tm.diff([F], {xt: tm.ONE})[0]), S(tm._l(G(xt))), clause="d/dx integral(x) == __call__(x)")
    ctx.eq("int_all", S(tm._l(G.int_all)), S(tm.add(tm._l(G.integral(hit)), tm.neg(tm._l(G.integral(lot))))),
           clause="int_all == integral(m_max) - integral(m_min)")
    ctx.holds("int_all.positive", S(tm._l(G.int_all)) > 0.0, clause="int_all > 0 for m_min < m_max (atan increasing)")

    # --- inverse transform
    u = ctx.real("u", (), lambda r: r.uniform(0.0, 1.0))
    ctx.require(u >= 0.0)
    ctx.require(u <= 1.0)
    ut = E(u)
    sol = tm._l(G.solve(ut))
    tans = _nodes(sol, "tan")
    if len(tans) != 1:
        raise RuntimeError("BWGenerator.solve no longer has exactly one tan node (%d): contract needs review" % len(tans))
    theta = tans[0].args[1]
    half_pi = tm.div(tm.PI, tm.const(2))
    ctx.holds("solve.tan_argument_in_principal_branch", (S(theta) > S(tm.neg(half_pi))) & (S(theta) < S(half_pi)),
              clause="the argument of tan in solve(u) lies in (-pi/2, pi/2) for every u in [0, 1]")
    Isol = tm._l(G.integral(sol))
    atans = [t for t in _nodes(Isol, "atan") if any(s is tans[0] for s in tm.postorder([t.args[1]]))]
    if len(atans) != 1:
        raise RuntimeError("integral(solve(u)) should contain exactly one atan of the tan node (%d)" % len(atans))
    ctx.eq("solve.atan_argument_is_tan", S(atans[0].args[1]), S(tans[0]), clause="inside integral(solve(u)) the argument of atan is exactly tan(theta)")
    (Icollapsed,) = tm.subst([Isol], {atans[0]: theta})
    ctx.eq("cdf_inverse", S(tm.add(Icollapsed, tm.neg(tm._l(G.integral(lot))))), S(tm.mul(ut, tm._l(G.int_all))),
           clause="integral(solve(u)) - integral(m_min) == u * int_all  (with atan(tan theta) = theta on the principal branch)")
    # range: tan increasing on the principal branch, tan(atan a) = a  (instantiated lemmas)
    k = tm.div(g0t, tm.const(2))
    for nm, edge in (("lo", lot), ("hi", hit)):
        a = tm.div(tm.add(edge, tm.neg(m0t)), k)
        at = tm.fn("atan", a)
        ctx.lemma(tm.implies(tm.le(at, theta), tm.le(a, tans[0])))
        ctx.lemma(tm.implies(tm.le(theta, at), tm.le(tans[0], a)))
    ctx.holds("solve.range", (S(sol) >= lo) & (S(sol) <= hi), clause="m_min <= solve(u) <= m_max for u in [0, 1]")

"""C17 - temporary overrides and derived computations leave the model unchanged (dynamic confirmation, incl. exception injection).

Bounded runtime contracts (kind "B", real TensorFlow) on a small real model built by ConfigLoader from the catalogue of vt.iface.models.

Tracked state  sigma  (compared with ==, never with a tolerance):
    chains_idx (as a list), not_full, the stored value of every parameter by name, the value of every parameter as read by the model
    (get_params(), mask aware), vm.mask_vars, the polar flags, trainable_vars, the mask_factor flag of every chain and decay, the touched keys
    of the global configuration ("polar": value, "vm": object identity);
and the density of 16 fixed events (compared bit for bit: the same code evaluates the same inputs when sigma is the same).

For every function F of the table in DESIGN C17:
    F/normal      sigma and the densities after F (after leaving the with-block) == before
    F/exception   an exception raised inside the with-body, or injected at the k-th call into the amplitude for EVERY k up to the number of
                  calls observed in the normal run (the first failing k is in the witness), is caught by the harness; then sigma and the
                  densities == before
    F/normal@inside_temp_used_res   (computations) the same computation inside `with amp.temp_used_res(R)`: sigma after F == sigma before F
    nest/A+B/normal|exception       `with A: with B:` in both orders
After every scenario the harness forces the model back to the pristine state and verifies that it got there.

Exception injection is done in the check process only: instance attribute decay_group.sum_amp (what pdf / amp(...) / eval_integral /
sum_gradient end up calling), and for the cached_shape model the module functions experimental.build_amp.build_params_vector /
experimental.opt_int.build_params_vector and decay_group.sum_with_polarization, are wrapped by a counting function that raises at call k;
the wrappers are removed in a finally block.
"""
from __future__ import annotations

import contextlib
import io
import warnings

import numpy as np

from vt.core.oblig import group
from vt.iface import models as M


class Injected(Exception):
    """the exception the harness raises inside a with-body / at the k-th call into the amplitude"""


@contextlib.contextmanager
def _quiet():
    with contextlib.redirect_stdout(io.StringIO()), warnings.catch_warnings():
        warnings.simplefilter("ignore")
        yield


def _short(w, n=1800):
    s = repr(w)
    return s if len(s) <= n else s[:n] + "..."


# ---------------------------------------------------------------------------------------------
# the model, sigma, densities
# ---------------------------------------------------------------------------------------------


class Env:
    pass


def make_env(ctx, sname, chains=None, data=None, res_over=None, n_ev=16):
    env = Env()
    env.ctx = ctx
    env.sname = sname
    env.cfg = M.build_config(sname, chains=chains, data=data, res_over=res_over)
    with _quiet():
        env.config, env.amp = M.load(ctx, env.cfg)
        M.set_params(env.amp, M.random_params(env.amp, ctx.seed + 17, shape=False))
        env.ps = M.phsp(ctx, sname, n_ev, ctx.seed + 170)
        env.data = M.cal_data(env.config, sname, env.ps)
    env.dg = env.amp.decay_group
    env.vm = env.amp.vm
    env.cfgmod = ctx.mod("config")
    env.vm0 = env.cfgmod.get_config("vm")
    env.flag_objs = []
    for ch in env.dg:
        env.flag_objs.append(("chain %s" % ch, ch))
        for d in ch:
            env.flag_objs.append(("decay %s" % d, d))
    with _quiet():
        env.d0 = density(env)
    env.s0 = sigma(env)
    return env


def _num(v):
    return float(np.asarray(v))


def sigma(env):
    vm, dg = env.vm, env.dg
    get_config = env.cfgmod.get_config
    return {
        "chains_idx": list(dg.chains_idx),
        "not_full": bool(dg.not_full),
        "stored": {n: _num(v.numpy()) for n, v in vm.variables.items()},
        "get_params": {n: _num(v) for n, v in env.amp.get_params().items()},
        "mask_vars": {k: _num(v) for k, v in vm.mask_vars.items()},
        "polar_flags": {k: bool(v) for k, v in vm.complex_vars.items()},
        "trainable_vars": list(vm.trainable_vars),
        "mask_factor": {lab: bool(getattr(o, "mask_factor", False)) for lab, o in env.flag_objs},
        "config": {"polar": get_config("polar"), "vm": id(get_config("vm"))},
    }


def density(env):
    return np.asarray(env.amp(env.data), dtype=np.float64)


def sigma_diff(a, b):
    out = {}
    for k in a:
        if a[k] != b[k]:
            if isinstance(a[k], dict):
                out[k] = {kk: [a[k].get(kk), b[k].get(kk)] for kk in sorted(set(a[k]) | set(b[k]), key=str) if a[k].get(kk) != b[k].get(kk)}
            else:
                out[k] = [a[k], b[k]]
    return out


def force_reset(env):
    """bring the model back to the pristine state by direct assignment (harness code, not code under contract) and verify"""
    s0 = env.s0
    vm, dg = env.vm, env.dg
    vm.mask_vars = {}
    seen = set()
    for n, v in vm.variables.items():
        if id(v) not in seen:
            seen.add(id(v))
            v.assign(s0["stored"][n], read_value=False)
    vm.complex_vars.clear()
    vm.complex_vars.update(s0["polar_flags"])
    vm.trainable_vars[:] = s0["trainable_vars"]
    dg.chains_idx = list(s0["chains_idx"])
    dg.not_full = s0["not_full"]
    for lab, o in env.flag_objs:
        o.mask_factor = s0["mask_factor"][lab]
    env.cfgmod.set_config("polar", s0["config"]["polar"])
    if id(env.cfgmod.get_config("vm")) != s0["config"]["vm"]:
        env.cfgmod.set_config("vm", env.vm0)
    s = sigma(env)
    if s != s0:
        raise RuntimeError("harness could not reset the model: %s" % sigma_diff(s0, s))


class Acc:
    def __init__(self, ctx):
        self.ctx = ctx
        self.items = {}

    def declare(self, name, clause):
        self.items.setdefault(name, {"clause": clause, "n": 0, "bad": None, "nbad": 0})

    def add(self, name, ok, witness=None):
        it = self.items[name]
        it["n"] += 1
        if not ok:
            it["nbad"] += 1
            if it["bad"] is None:
                it["bad"] = witness or {}

    def flush(self):
        for name, it in self.items.items():
            if it["n"] == 0:
                self.ctx.check(name, False, clause=it["clause"], detail="no evaluation reached this obligation (vacuous)", witness={})
                continue
            bad = it["bad"]
            if bad is not None:
                bad = dict(bad, failing_scenarios=it["nbad"], scenarios=it["n"])
            self.ctx.check(name, bad is None, clause=it["clause"], detail="" if bad is None else "first failing scenario: %s" % _short(bad), witness=bad)


def compare(env, s_before, d_before, what):
    """-> (ok, witness) : state now vs the given state; densities bit for bit"""
    s1 = sigma(env)
    err = None
    try:
        with _quiet():
            d1 = density(env)
    except Exception as ex:  # noqa: BLE001  the model cannot even be evaluated any more
        d1, err = None, "%s: %s" % (type(ex).__name__, str(ex)[:200])
    diff = sigma_diff(s_before, s1)
    same_d = d1 is not None and d_before is not None and d1.shape == d_before.shape and bool(np.array_equal(d1, d_before))
    if d_before is None:
        same_d = True
    ok = not diff and same_d
    w = None
    if not ok:
        w = dict(what, sigma_changed={k: v for k, v in diff.items()}, model=env.sname, chains=[str(c) for c in env.dg.chains])
        if err:
            w["density_after"] = "evaluation raised " + err
        elif not same_d:
            i = int(np.argmax(np.abs(d1 - d_before)))
            w["density_event"] = i
            w["density_before"] = float(d_before[i])
            w["density_after"] = float(d1[i])
            w["events_with_changed_density"] = int(np.sum(d1 != d_before))
    return ok, w


# ---------------------------------------------------------------------------------------------
# arguments that really change the state
# ---------------------------------------------------------------------------------------------


def args_for(env):
    s0 = env.s0
    free = list(s0["trainable_vars"])
    a = Env()
    a.P1 = {free[0]: s0["stored"][free[0]] + 0.37, free[-1]: s0["stored"][free[-1]] - 0.21}
    a.P2 = {free[1]: s0["stored"][free[1]] + 0.5}
    tot = [n for n in s0["stored"] if "total" in n and n.endswith("r")]
    a.M1 = {tot[0]: 1.0, tot[-1]: 1.5}
    a.M2 = {free[0]: 0.25}
    res = [str(r) for r in env.amp.res]
    a.R1 = [res[0]]
    a.R2 = [res[-1]]
    a.res = res
    a.err = np.eye(len(free)) * 1e-4
    return a


# ---------------------------------------------------------------------------------------------
# context managers
# ---------------------------------------------------------------------------------------------


def managers(env, a, second=False):
    """name -> (functions under contract, factory of a fresh context manager).  second=True gives different arguments (for A inside A)"""
    amp, dg, vm, config = env.amp, env.dg, env.vm, env.config
    core = env.ctx.mod("amp.core")
    cfgmod = env.cfgmod
    PT = env.ctx.mod("params_trans").ParamsTrans
    P, Mk, R = (a.P2, a.M2, a.R2) if second else (a.P1, a.M1, a.R1)
    polar_new = not env.s0["config"]["polar"]
    config.inv_he = a.err  # what ConfigLoader.params_trans hands to VarsManager.error_trans
    out = {
        "VarsManager.temp_params": lambda: vm.temp_params(dict(P)),
        "VarsManager.mask_params": lambda: vm.mask_params(dict(Mk)),
        "VarsManager.error_trans": lambda: vm.error_trans(a.err),
        "AbsPDF.temp_params": lambda: amp.temp_params(dict(P)),
        "AbsPDF.mask_params": lambda: amp.mask_params(dict(Mk)),
        "DecayGroup.temp_used_res": lambda: dg.temp_used_res(list(R)),
        "BaseAmplitudeModel.temp_used_res": lambda: amp.temp_used_res(list(R)),
        "BaseAmplitudeModel.temp_total_gls_one": lambda: amp.temp_total_gls_one(),
        "config.temp_config": lambda: cfgmod.temp_config("polar", polar_new),
        "amp.core.variable_scope": lambda: core.variable_scope(),
        "ConfigLoader.mask_params": lambda: config.mask_params(dict(Mk)),
        "ConfigLoader.params_trans": lambda: config.params_trans(),
        "ParamsTrans.mask_params": lambda: PT(vm, a.err).mask_params(dict(Mk)),
    }
    return out


MANAGER_FUNCS = {
    "VarsManager.temp_params": "variable:VarsManager.temp_params", "VarsManager.mask_params": "variable:VarsManager.mask_params",
    "VarsManager.error_trans": "variable:VarsManager.error_trans", "AbsPDF.temp_params": "amp.amp:AbsPDF.temp_params",
    "AbsPDF.mask_params": "amp.amp:AbsPDF.mask_params", "DecayGroup.temp_used_res": "amp.core:DecayGroup.temp_used_res",
    "BaseAmplitudeModel.temp_used_res": "amp.amp:BaseAmplitudeModel.temp_used_res",
    "BaseAmplitudeModel.temp_total_gls_one": "amp.amp:BaseAmplitudeModel.temp_total_gls_one", "config.temp_config": "config:temp_config",
    "amp.core.variable_scope": "amp.core:variable_scope", "ConfigLoader.mask_params": "config_loader.config_loader:ConfigLoader.mask_params",
    "ConfigLoader.params_trans": "config_loader.config_loader:ConfigLoader.params_trans", "ParamsTrans.mask_params": "params_trans:ParamsTrans.mask_params",
}
NEST = ["AbsPDF.temp_params", "AbsPDF.mask_params", "BaseAmplitudeModel.temp_used_res", "BaseAmplitudeModel.temp_total_gls_one", "config.temp_config"]
SHORT = {"AbsPDF.temp_params": "temp_params", "AbsPDF.mask_params": "mask_params", "BaseAmplitudeModel.temp_used_res": "temp_used_res",
         "BaseAmplitudeModel.temp_total_gls_one": "temp_total_gls_one", "config.temp_config": "temp_config"}


def _is_cm(obj):
    return hasattr(obj, "__enter__") and hasattr(obj, "__exit__")


def run_manager(env, acc, name, factory):
    cl_n = "`with %s(...):` ends normally (the model is evaluated inside): sigma and the density of the 16 events afterwards == before" % name
    cl_e = "`with %s(...):` is left by an exception raised in the body: after catching it sigma and the density of the 16 events == before" % name
    acc.declare(name + "/normal", cl_n)
    acc.declare(name + "/exception", cl_e)
    for kind in ("normal", "exception"):
        env.ctx.count(key=(env.sname, name, kind), sample={"function": name, "exit": kind, "model": env.sname})
        what = {"function": name, "exit": kind}
        try:
            with _quiet():
                cm = factory()
                if not _is_cm(cm):
                    raise TypeError("%s does not return a context manager" % name)
                with cm:
                    density(env)
                    if kind == "exception":
                        raise Injected("in the body of " + name)
        except Injected:
            pass
        except Exception as ex:  # noqa: BLE001  the manager itself failed on valid arguments
            what["raised"] = "%s: %s" % (type(ex).__name__, str(ex)[:300])
        ok, w = compare(env, env.s0, env.d0, what)
        if "raised" in what and ok:
            ok, w = False, what
        acc.add("%s/%s" % (name, kind), ok, w)
        force_reset(env)


def run_nesting(env, acc, a):
    first = managers(env, a)
    second = managers(env, a, second=True)
    for i, A in enumerate(NEST):
        for B in NEST[i:]:
            nm = "nest/%s+%s" % (SHORT[A], SHORT[B])
            acc.declare(nm + "/normal", "`with %s: with %s:` in both orders, normal exits: leaving the inner block restores sigma and densities as they were when it "
                                        "was entered, leaving the outer block restores the state before" % (A, B))
            acc.declare(nm + "/exception", "`with %s: with %s:` in both orders, exception raised in the innermost body and caught outside both blocks: sigma and "
                                           "densities == before" % (A, B))
            orders = [(A, B)] if A == B else [(A, B), (B, A)]
            for outer, inner in orders:
                for kind in ("normal", "exception"):
                    env.ctx.count(key=(env.sname, "nest", outer, inner, kind), sample={"outer": outer, "inner": inner, "exit": kind})
                    what = {"outer": outer, "inner": inner, "exit": kind}
                    ok, w = True, None
                    try:
                        with _quiet():
                            with first[outer]():
                                s_in = sigma(env)
                                d_in = density(env)
                                with second[inner]():
                                    density(env)
                                    if kind == "exception":
                                        raise Injected("in the innermost body")
                                ok, w = compare(env, s_in, d_in, dict(what, stage="after leaving the inner block (compared with the state at its entry)"))
                    except Injected:
                        pass
                    except Exception as ex:  # noqa: BLE001
                        ok, w = False, dict(what, raised="%s: %s" % (type(ex).__name__, str(ex)[:300]))
                    if ok:
                        ok, w = compare(env, env.s0, env.d0, dict(what, stage="after leaving both blocks"))
                    acc.add("%s/%s" % (nm, kind), ok, w)
                    force_reset(env)


# generators that are iterated (factor_iteration) -------------------------------------------------


def generators(env):
    amp, dg = env.amp, env.dg
    return {
        "DecayChain.factor_iteration": ("amp.core:DecayChain.factor_iteration", lambda: dg.chains[0].factor_iteration(deep=1)),
        "DecayGroup.factor_iteration": ("amp.core:DecayGroup.factor_iteration", lambda: dg.factor_iteration(deep=2)),
        "BaseAmplitudeModel.factor_iteration": ("amp.amp:BaseAmplitudeModel.factor_iteration", lambda: amp.factor_iteration(deep=2)),
    }


def run_generator(env, acc, name, factory):
    acc.declare(name + "/normal", "`for _ in %s(...)` runs to exhaustion (model evaluated in every iteration): sigma and densities afterwards == before" % name)
    acc.declare(name + "/exception", "an exception raised in the loop body at iteration k (every k) is caught and the generator closed: sigma and densities == before")
    acc.declare(name + "/break", "the loop is left by `break` at iteration k (every k) and the generator closed: sigma and densities == before")
    # normal
    n_iter = 0
    what = {"function": name, "exit": "normal"}
    try:
        with _quiet():
            for _ in factory():
                n_iter += 1
                density(env)
    except Exception as ex:  # noqa: BLE001
        what["raised"] = "%s: %s" % (type(ex).__name__, str(ex)[:300])
    ok, w = compare(env, env.s0, env.d0, dict(what, iterations=n_iter))
    if "raised" in what and ok:
        ok, w = False, what
    acc.add(name + "/normal", ok, w)
    env.ctx.count(key=(env.sname, name, "normal"), sample={"function": name, "iterations": n_iter})
    force_reset(env)
    if n_iter == 0:
        raise RuntimeError("%s yields nothing on this model" % name)
    for kind in ("exception", "break"):
        for k in range(1, n_iter + 1):
            gen = factory()
            try:
                with _quiet():
                    j = 0
                    for _ in gen:
                        j += 1
                        if j == k:
                            if kind == "break":
                                break
                            raise Injected("in the loop body")
            except Injected:
                pass
            finally:
                with _quiet():
                    gen.close()  # what garbage collection does to an abandoned generator
            ok, w = compare(env, env.s0, env.d0, {"function": name, "exit": kind, "at_iteration": k, "iterations_in_normal_run": n_iter})
            acc.add("%s/%s" % (name, kind), ok, w)
            env.ctx.count(key=(env.sname, name, kind, k))
            force_reset(env)


# ---------------------------------------------------------------------------------------------
# computations with exception injection
# ---------------------------------------------------------------------------------------------


class Injector:
    """wraps callables (instance or module attributes) by a shared call counter; raises Injected at call number `at` (1-based)"""

    def __init__(self, targets):
        self.targets = targets  # list of (object, attribute name)
        self.saved = []
        self.calls = 0
        self.at = None

    def __enter__(self):
        for obj, attr in self.targets:
            had = attr in getattr(obj, "__dict__", {})
            orig = getattr(obj, attr)
            self.saved.append((obj, attr, had, orig))

            def wrapper(*args, _orig=orig, **kwargs):
                self.calls += 1
                if self.at is not None and self.calls == self.at:
                    raise Injected("at call %d into the amplitude" % self.calls)
                return _orig(*args, **kwargs)

            setattr(obj, attr, wrapper)
        return self

    def __exit__(self, *exc):
        for obj, attr, had, orig in self.saved:
            if had:
                setattr(obj, attr, orig)
            else:
                delattr(obj, attr)
        self.saved = []
        return False


def run_computation(env, acc, name, call, targets, a, inside=True):
    cl_n = "%s returns normally: sigma and the density of the 16 events afterwards == before" % name
    cl_e = ("%s with an exception injected at the k-th call into the amplitude, for every k up to the number of calls of the normal run, caught by the caller: "
            "sigma and the densities == before (first failing k in the witness)" % name)
    acc.declare(name + "/normal", cl_n)
    acc.declare(name + "/exception", cl_e)
    # normal run, counting the calls into the amplitude
    what = {"function": name, "exit": "normal"}
    n_calls = 0
    try:
        with _quiet():
            with Injector(targets) as inj:
                call()
                n_calls = inj.calls
    except Exception as ex:  # noqa: BLE001
        what["raised"] = "%s: %s" % (type(ex).__name__, str(ex)[:300])
    ok, w = compare(env, env.s0, env.d0, dict(what, calls_into_amplitude=n_calls))
    if "raised" in what and ok:
        ok, w = False, what
    acc.add(name + "/normal", ok, w)
    env.ctx.count(key=(env.sname, name, "normal"), sample={"function": name, "calls_into_amplitude": n_calls})
    force_reset(env)
    if n_calls == 0 and "raised" not in what:
        raise RuntimeError("%s never reached an injection point" % name)
    for k in range(1, n_calls + 1):
        what = {"function": name, "exit": "exception", "injected_at_call": k, "calls_in_normal_run": n_calls}
        raised = False
        try:
            with _quiet():
                with Injector(targets) as inj:
                    inj.at = k
                    call()
        except Injected:
            raised = True
        except Exception as ex:  # noqa: BLE001  (the library may translate the exception)
            raised = True
            what["raised_instead"] = "%s: %s" % (type(ex).__name__, str(ex)[:200])
        ok, w = compare(env, env.s0, env.d0, what)
        if not raised:
            # the injected exception was swallowed: not a state leak; recorded for the reader
            what["note"] = "the injected exception did not reach the caller"
        acc.add(name + "/exception", ok, w)
        env.ctx.count(key=(env.sname, name, "exception", k))
        force_reset(env)
    if inside:
        nm = name + "/normal@inside_temp_used_res"
        acc.declare(nm, "%s called inside `with amp.temp_used_res(R):` returns normally: sigma (in particular the restricted chain selection) and the densities "
                        "after the call == before the call" % name)
        what = {"function": name, "exit": "normal", "inside": "amp.temp_used_res(%s)" % a.R1}
        ok, w = True, None
        try:
            with _quiet():
                with env.amp.temp_used_res(list(a.R1)):
                    s_in = sigma(env)
                    d_in = density(env)
                    call()
                    ok, w = compare(env, s_in, d_in, what)
        except Exception as ex:  # noqa: BLE001
            ok, w = False, dict(what, raised="%s: %s" % (type(ex).__name__, str(ex)[:300]))
        acc.add(nm, ok, w)
        env.ctx.count(key=(env.sname, name, "inside"))
        force_reset(env)


# ---------------------------------------------------------------------------------------------
# groups
# ---------------------------------------------------------------------------------------------

_SIGMA = ("sigma = (chains_idx, not_full, stored and read value of every parameter, mask_vars, polar flags, trainable_vars, mask_factor of every chain/decay, "
          "config keys 'polar' and 'vm'), compared with ==; density of 16 seeded phase-space events compared bit for bit")


def _models(ctx):
    return ["s110"] if ctx.tier == "quick" else ["s110", "sh00", "f4"]


@group(["C17"], "iface.C17/context_managers", sorted(set(MANAGER_FUNCS.values())) + ["amp.core:DecayChain.factor_iteration", "amp.core:DecayGroup.factor_iteration",
                                                                                     "amp.amp:BaseAmplitudeModel.factor_iteration", "amp.core:DecayGroup.set_used_res",
                                                                                     "amp.core:DecayGroup.set_used_chains"], env="tf", kind="B",
       bound="model (1;1,1,0) with three chains (thorough: also (1/2;1/2,0,0) three chains and the 4-body model with four chains), one seeded parameter point; every context manager "
             "of the DESIGN C17 table with state-changing arguments x {normal exit, exception raised in the body}; the three factor_iteration generators x {exhausted, exception at "
             "iteration k, break at iteration k, every k}; `with A: with B:` for all unordered pairs (both orders, A+A with different arguments) of {temp_params, mask_params, "
             "temp_used_res, temp_total_gls_one, temp_config} x {normal, exception in the innermost body}; " + _SIGMA)
def c17_managers(ctx):
    acc = Acc(ctx)
    for sname in _models(ctx):
        env = make_env(ctx, sname)
        a = args_for(env)
        for name, factory in managers(env, a).items():
            run_manager(env, acc, name, factory)
        for name, (_, factory) in generators(env).items():
            run_generator(env, acc, name, factory)
        run_nesting(env, acc, a)
    acc.flush()


_COMP_FUNCS = ["amp.core:DecayGroup.partial_weight", "amp.core:DecayGroup.partial_weight_interference", "amp.amp:BaseAmplitudeModel.partial_weight",
               "amp.amp:AmplitudeModel.partial_weight", "amp.amp:BaseAmplitudeModel.partial_weight_interference", "fitfractions:cal_fitfractions",
               "fitfractions:cal_fitfractions_no_grad", "fitfractions:FitFractions.append_int", "fitfractions:FitFractions.integral", "applications:fit_fractions",
               "config_loader.config_loader:ConfigLoader.cal_fitfractions"]


@group(["C17"], "iface.C17/computations", _COMP_FUNCS, env="tf", kind="B",
       bound="model (1;1,1,0) with three chains (thorough: also (1/2;1/2,0,0) and the 4-body model); partial_weight (DecayGroup, AmplitudeModel, BaseAmplitudeModel) with default and "
             "explicit combine, partial_weight_interference (DecayGroup, model), cal_fitfractions (list of one data set; batch 7 with two listed resonances) / cal_fitfractions_no_grad (batch 7), FitFractions.append_int / "
             "integral(batch 7), applications.fit_fractions (method old / new, with temporary params), ConfigLoader.cal_fitfractions (old / new): normal return; an exception "
             "injected at EVERY call into decay_group.sum_amp observed in the normal run; the same computation inside amp.temp_used_res(R); " + _SIGMA)
def c17_computations(ctx):
    acc = Acc(ctx)
    ff = ctx.mod("fitfractions")
    app = ctx.mod("applications")
    Base = ctx.mod("amp.amp").BaseAmplitudeModel
    for sname in _models(ctx):
        env = make_env(ctx, sname)
        a = args_for(env)
        amp, dg, data, config = env.amp, env.dg, env.data, env.config
        n = len(dg.chains)
        targets = [(dg, "sum_amp")]
        comps = {
            "DecayGroup.partial_weight": lambda: dg.partial_weight(data),
            "DecayGroup.partial_weight(combine)": lambda: dg.partial_weight(data, combine=[[0, n - 1], [1]]),
            "DecayGroup.partial_weight_interference": lambda: dg.partial_weight_interference(data),
            "AmplitudeModel.partial_weight": lambda: amp.partial_weight(data),
            "BaseAmplitudeModel.partial_weight": lambda: Base.partial_weight(amp, data, combine=[[0], [1, n - 1]]),
            "BaseAmplitudeModel.partial_weight_interference": lambda: amp.partial_weight_interference(data),
            "cal_fitfractions": lambda: ff.cal_fitfractions(amp, [data]),  # (without batch the function takes a list of data sets)
            "cal_fitfractions(batch)": lambda: ff.cal_fitfractions(amp, data, res=list(a.res[:2]), batch=7),
            "cal_fitfractions_no_grad": lambda: ff.cal_fitfractions_no_grad(amp, data, res=list(a.res[:2]), batch=7),
            "FitFractions.append_int": lambda: ff.FitFractions(amp, list(a.res)).append_int(data),
            "FitFractions.integral": lambda: ff.FitFractions(amp, list(a.res[:2])).integral(data, batch=7),
            "applications.fit_fractions(old)": lambda: app.fit_fractions(amp, data, params=dict(a.P1), batch=9, res=list(a.res), method="old"),
            "applications.fit_fractions(new)": lambda: app.fit_fractions(amp, data, params=dict(a.P1), batch=9, res=list(a.res), method="new"),
            "ConfigLoader.cal_fitfractions(old)": lambda: config.cal_fitfractions(params=dict(a.P2), mcdata=data, batch=9),
            "ConfigLoader.cal_fitfractions(new)": lambda: config.cal_fitfractions(params=dict(a.P2), mcdata=data, batch=9, method="new"),
        }
        for name, call in comps.items():
            run_computation(env, acc, name, call, targets, a)
    acc.flush()


@group(["C17"], "iface.C17/cached_shape", ["amp.amp:CachedShapeAmplitudeModel.pdf", "amp.preprocess:CachedShapePreProcessor.build_cached",
                                           "amp.amp:CachedShapeAmplitudeModel.get_cached_shape_idx"], env="tf", kind="B",
       bound="model (1;1,1,0), three chains, amp_model = preprocessor = cached_shape, mass and width of one resonance floating (so that one chain is re-evaluated and two use "
             "the cached shape): CachedShapeAmplitudeModel.pdf / model(data) and CachedShapePreProcessor.build_cached (through config.data.cal_angle): normal return; an "
             "exception injected at EVERY call of build_amp.build_params_vector / opt_int.build_params_vector / decay_group.sum_with_polarization / get_m_dep observed in the "
             "normal run; pdf inside amp.temp_used_res(R); " + _SIGMA)
def c17_cached_shape(ctx):
    acc = Acc(ctx)
    env = make_env(ctx, "s110", data={"amp_model": "cached_shape", "preprocessor": "cached_shape"}, res_over={"R_BD": {"float": "mg"}})
    if type(env.amp).__name__ != "CachedShapeAmplitudeModel":
        raise RuntimeError("configuration did not select the cached_shape model: %s" % type(env.amp).__name__)
    a = args_for(env)
    amp, dg, data, config = env.amp, env.dg, env.data, env.config
    b1 = ctx.mod("experimental.build_amp")
    b2 = ctx.mod("experimental.opt_int")
    targets = [(b1, "build_params_vector"), (b2, "build_params_vector"), (dg, "sum_with_polarization"), (dg, "get_m_dep")]
    p4 = M.p4dict(env.sname, [np.array(p) for p in env.ps])
    comps = {
        "CachedShapeAmplitudeModel.pdf": (lambda: amp.pdf(data), True),
        "CachedShapeAmplitudeModel.__call__": (lambda: amp(data), True),
        "CachedShapePreProcessor.build_cached": (lambda: config.data.cal_angle({k: np.array(v) for k, v in p4.items()}), True),
    }
    for name, (call, inside) in comps.items():
        run_computation(env, acc, name, call, targets, a, inside=inside)
    acc.flush()

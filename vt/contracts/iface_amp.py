"""Bounded runtime contracts (kind "B", real TensorFlow) at the public interface

    ConfigLoader(dict) -> .data.cal_angle(p4) -> .get_amplitude()(data)

for the amplitude-level properties C01 (frame independence), C02 (bookkeeping conventions), C03 (superposition and
fit fractions), C04 (closed form for spinless cascades) and C05(b) (evaluation strategies).

Every right-hand side is written from the property statement / textbook definitions (numpy), never from the code under
contract.  Nothing here is a proof: each group states its bound.
"""
from __future__ import annotations

import contextlib
import io
import itertools
import math

import numpy as np

from vt.core.oblig import group
from vt.iface import models as M

# ---------------------------------------------------------------------------------------------
# common
# ---------------------------------------------------------------------------------------------


@contextlib.contextmanager
def _quiet():
    """the library prints progress lines while building models"""
    with contextlib.redirect_stdout(io.StringIO()):
        yield


def _load(ctx, cfg):
    with _quiet():
        return M.load(ctx, cfg)


class Acc:
    """aggregates many evaluations into a few named obligations; keeps the first failing input as witness"""

    def __init__(self, ctx):
        self.ctx = ctx
        self.items = {}  # name -> dict(clause, n, worst, bad)

    def declare(self, name, clause):
        self.items.setdefault(name, {"clause": clause, "n": 0, "worst": 0.0, "bad": None})

    def add(self, name, clause, ok, score=0.0, witness=None):
        it = self.items.setdefault(name, {"clause": clause, "n": 0, "worst": 0.0, "bad": None})
        it["n"] += 1
        if score == score and score > it["worst"]:
            it["worst"] = float(score)
        if not ok and it["bad"] is None:
            it["bad"] = witness or {}

    def flush(self):
        if M.PHSP_FALLBACKS:
            self.ctx.count(key=("phsp_fallback", tuple(sorted(set(M.PHSP_FALLBACKS)))),
                           sample={"note": "tf_pwa.phasespace delivered unphysical events; independent numpy generator used", "structures": sorted(set(M.PHSP_FALLBACKS))})
        for name, it in self.items.items():
            if it["n"] == 0:
                self.ctx.check(name, False, clause=it["clause"], detail="no evaluation reached this obligation (vacuous)", witness={})
                continue
            bad = it["bad"]
            self.ctx.check(name, bad is None, clause=it["clause"],
                           detail="" if bad is None else "first failing input: %s" % (_short(bad),), witness=bad)


def _exc(ex, head=250, tail=350):
    """exception text for a witness: TensorFlow puts the operative message LAST (after the node's stack), so keep both ends"""
    t = "%s: %s" % (type(ex).__name__, str(ex).strip())
    return t if len(t) <= head + tail + 5 else t[:head] + " ... " + t[-tail:]


def _short(w, n=900):
    s = repr(w)
    return s if len(s) <= n else s[:n] + "..."


def _f(x):
    return [float(v) for v in np.asarray(x).reshape(-1)]


def _event(sname, ps, i):
    return {n: _f(p[i]) for n, p in zip(M.final_names(sname), ps)}


def _chunks(n, size):
    for a in range(0, n, size):
        yield a, min(n, a + size)


def _density_many(config, amp, sname, plist, chunk=24000):
    """density of a long event list, evaluated in chunks (bounded memory); plist: list over finals of (n,4)"""
    n = len(plist[0])
    out = []
    for a, b in _chunks(n, chunk):
        out.append(M.density(config, amp, sname, [p[a:b] for p in plist]))
    return np.concatenate(out)


# ---------------------------------------------------------------------------------------------
# C01  frame independence
# ---------------------------------------------------------------------------------------------
# Tolerance.  The density is |sum of chain amplitudes|^2 summed over helicities.  Its inputs are Lorentz scalars and
# angles obtained after boosting to rest frames.  In a frame boosted by beta the momenta are O(gamma) larger and the rest
# frame quantities are recovered by cancellation, so the relative rounding error of an invariant mass squared is about
# gamma^2 * 1.1e-16 (gamma^2 = 500 at beta = 0.999 -> 6e-14); the most sensitive consumer is a Breit-Wigner of width
# Gamma, d ln|BW|/d ln m^2 <= m0/Gamma <= 80 in the catalogue, giving <= 1e-11.  rtol = 1e-8 therefore leaves three
# orders of magnitude of head room even at beta = 0.999 and is NOT scaled with gamma^2.  Because the density can pass
# through (near) zeros of the coherent sum where a relative comparison is meaningless (delta d = 2|A||delta A|), an
# absolute floor of 1e-10 * mean density of the sample is added; it only matters for events whose density is below 1 %
# of the mean.
C01_RTOL = 1e-8
C01_AFLOOR = 1e-10
# Exception (one obligation family only, "...@shared_vertex"): when two chains of DIFFERENT topology share the production vertex of
# a spinning final particle (A -> R_BCD E with R_BCD -> R_BC D and R_BCD -> R_CD B, E spin 1), the alignment rotation of that
# particle between the two chains is the identity.  SU2M.get_euler_angle extracts beta = acos(x) from the relative SU(2)
# element with x = 1 - O(eps); |d acos/dx| = 1/sqrt(1 - x^2), so an O(eps) = 1e-16 rounding of x gives an ABSOLUTE error of
# beta of O(sqrt(2 eps)) ~ 1.5e-8 (observed: beta up to 3.3e-8 instead of 0).  The Wigner D-matrix of the aligned particle then has
# off-diagonal entries O(J * 1e-8) with a rounding-dependent phase, and the density inherits a relative error of that order per
# aligned particle (observed 1.2e-8 .. 2.8e-8, changing with the frame because the rounding does).  For these configurations
# the comparison uses rtol 1e-6 (about 30 x the derived error bound); every other configuration keeps 1e-8.
C01_RTOL_SHARED_VERTEX = 1e-6


def _rtol_for(variant, default):
    return C01_RTOL_SHARED_VERTEX if variant.endswith("@shared_vertex") else default

_P3 = {("A", "R_BC", "D"): {"p_break": True}, ("A", "R_BD", "C"): {"p_break": True}, ("A", "R_CD", "B"): {"p_break": True}}
_CM = {"align_ref": "center_mass", "center_mass": True}
_HP = {("R_BC", "B", "C"): {"model": "helicity_parity"}}
_ST_CA = {"preprocessor": "cached_amp", "amp_model": "cached_amp"}
_ST_CS = {"preprocessor": "cached_shape", "amp_model": "cached_shape"}
_ST_BF = {"preprocessor": "cached_angle", "amp_model": "base_factor"}

# variant -> (structure, [(label, chains, vertex options, extra data options)], parity admissible?)
C01_CATALOGUE = {
    "int3": [
        ("s000", "s000", [("1ch", ["bc"], None, None), ("2ch", ["bc", "bd"], None, None), ("3ch", None, None, None)], True),
        ("s110", "s110", [("1ch", ["bc"], None, None), ("2ch", ["bd", "cd"], None, None), ("3ch", None, None, None)], True),
        ("s110@p_break", "s110", [("3ch", None, _P3, None), ("1ch", ["bd"], _P3, None)], True),
        ("sid0", "sid0", [("1ch", ["bc"], None, None), ("2ch", ["bc", "cd"], None, None), ("3ch", None, None, None)], True),
        ("sid1@default", "sid1", [("1ch", ["bc"], None, None), ("2ch", None, None, None)], True),
        ("sid1@cm", "sid1", [("1ch", ["bc"], None, _CM), ("2ch", None, None, _CM)], True),
        ("sid3", "sid3", [("3ch", None, None, None)], True),
    ],
    "half3": [
        ("sh00", "sh00", [("1ch", ["cd"], None, None), ("2ch", ["bc", "bd"], None, None), ("3ch", None, None, None)], True),
        ("sh00@p_break", "sh00", [("3ch", None, _P3, None), ("1ch", ["bc"], _P3, None)], True),
        ("s1hh", "s1hh", [("1ch", ["bc"], None, None), ("2ch", ["bc", "cd"], None, None), ("3ch", None, None, None)], True),
        ("sidh@default", "sidh", [("1ch", ["bc"], None, None), ("3ch", None, None, None)], True),
        ("sidh@cm", "sidh", [("1ch", ["bc"], None, _CM), ("3ch", None, None, _CM)], True),
    ],
    "four": [
        ("f4", "f4", [("cascade", ["cas"], None, None), ("branching", ["br"], None, None), ("2ch", ["cas", "cas2"], None, None),
                      ("2ch_mixed", ["br", "cas"], None, None), ("3ch", ["cas", "cas2", "br"], None, None)], True),
        ("f4@p_break", "f4", [("2ch", ["cas", "cas2"], {("A", "R_BCE", "D"): {"p_break": True}, ("A", "R_BCD", "E"): {"p_break": True}}, None),
                              ("branching", ["br"], {("A", "R_BC", "R_DE"): {"p_break": True}}, None)], False),
        ("f4@shared_vertex", "f4", [("2ch", ["cas2", "cas3"], None, None), ("4ch", None, None, None)], True),
        ("sid2g", "sid2g", [("1ch", ["br"], None, None), ("2ch", None, None, None)], True),
        # decay-vertex models other than the default LS couplings: helicity couplings with the parity relation built in
        # (fermion -> fermion + boson vertex R_BC(3/2-) -> B(1/2+) C(0-), interfering with chains that do not contain it)
        ("f4@helicity_parity", "f4", [("2ch", ["cas", "cas2"], _HP, None), ("3ch", ["cas", "cas2", "br"], _HP, None)], True),
    ],
    # the statement is about the density the user obtains, whichever evaluation strategy the data section selects: the strategies that keep
    # per-event tensors computed when the data object is built (pre-cached angular amplitude DecayChain.get_angle_amp, cached line shapes,
    # cached angle factors) carry their own copies of the final-state alignment contraction.  Structures: spinning three-body decays with
    # three chains of three different topologies (the alignment of the spinning finals differs between the chains and depends on the frame
    # through the Wigner rotation), no identical particles.  Same transformations, same tolerance (same products, other association order).
    "strat3": [
        ("sh00@cached_amp", "sh00", [("3ch", None, None, _ST_CA), ("2ch", ["bc", "cd"], None, _ST_CA)], True),
        ("s1hh@cached_amp", "s1hh", [("3ch", None, None, _ST_CA)], True),
        ("s110@cached_amp", "s110", [("3ch", None, None, _ST_CA)], True),
        ("sh00@cached_shape", "sh00", [("3ch", None, None, _ST_CS)], True),
        ("s110@cached_shape", "s110", [("3ch", None, None, _ST_CS)], True),
        ("s1hh@cached_angle+base_factor", "s1hh", [("3ch", None, None, _ST_BF)], True),
    ],
    # the non-default alignment option r_boost: False (the library's own example configurations use it): the final-state helicities are aligned by
    # EulerAngle.angle_zx_zx of the helicity frames instead of the boost-aware rule.  (Added after seeded change C01-angle_zx_zx_gamma_sign.)
    "rboost": [
        ("s110@r_boost_false", "s110", [("3ch", None, None, {"r_boost": False}), ("2ch", ["bc", "cd"], None, {"r_boost": False})], True),
        ("s1hh@r_boost_false", "s1hh", [("3ch", None, None, {"r_boost": False})], True),
        ("sh00@r_boost_false", "sh00", [("3ch", None, None, {"r_boost": False})], True),
        ("f4@r_boost_false", "f4", [("3ch", ["cas", "cas2", "br"], None, {"r_boost": False})], True),
    ],
}


def _c01_run(ctx, part):
    n_ev = 64 if ctx.tier == "quick" else 2048
    acc = Acc(ctx)
    for variant, sname, cfgs, parity_ok in C01_CATALOGUE[part]:
        names = M.final_names(sname)
        ident = M.STRUCTS[sname].get("identical")
        rtol = _rtol_for(variant, C01_RTOL)
        tnote = ("|diff| <= %g*max + 1e-10*mean" % rtol) + (
            "; 1e-6 because the identity alignment of the shared-vertex particle is computed as beta = acos(1 - O(eps)) = O(sqrt(eps)) ~ 1.5e-8"
            if rtol != C01_RTOL else "")
        strat = sorted({(d.get("preprocessor", "default"), d.get("amp_model", "default")) for _, _, _, d in cfgs if d and ("preprocessor" in d or "amp_model" in d)})
        via = "" if not strat else "evaluated through data: {preprocessor: %s, amp_model: %s} (data object built by cal_angle separately for every frame): " % strat[0]
        assert len(strat) <= 1, strat
        cl = {
            "finite_nonneg": via + "density is finite and >= 0 for every event and every transformed copy",
            "rotation": via + "density(R p) == density(p) for axis/random rotations R (%s)" % tnote,
            "boost": via + "density(L p) == density(p) for boosts beta in {1e-8,0.3,0.9,0.999} x 6 directions and boost+rotation (%s, not scaled by gamma^2)" % tnote,
        }
        if parity_ok:
            cl["parity"] = via + "density(P p) == density(p) under spatial inversion (3-body, or every vertex parity conserving)"
        if ident:
            cl["exchange"] = "density unchanged under exchanging the momenta of the declared identical particles"
        for k, c in cl.items():
            acc.declare("%s/%s" % (variant, k), c)
        ps = M.phsp(ctx, sname, n_ev, ctx.seed)
        trs = M.transformations(ctx.seed, with_parity=parity_ok)
        # all transformed copies in one event list: [base | T1 base | T2 base | ...]
        big = [np.concatenate([p] + [p @ L.T for _, L, _ in trs]) for p in ps]
        labels = [t[0] for t in trs]
        mats = {t[0]: t[1] for t in trs}
        if ident:
            for grp in ident:
                for a, b in itertools.combinations(grp, 2):
                    ia, ib = names.index(M.nm(sname, a)), names.index(M.nm(sname, b))
                    sw = list(ps)
                    sw[ia], sw[ib] = ps[ib], ps[ia]
                    big = [np.concatenate([x, y]) for x, y in zip(big, sw)]
                    labels.append("exchange(%s,%s)" % (a, b))
        for label, chains, vertex, dopt in cfgs:
            for rz in (True, False):
                dd = {"random_z": rz}
                dd.update(dopt or {})
                cfg = M.build_config(sname, chains=chains, data=dd, vertex=vertex)
                config, amp = _load(ctx, cfg)
                M.set_params(amp, M.random_params(amp, ctx.seed + 1))
                with _quiet():  # cached_shape prints which chains it folds
                    d = _density_many(config, amp, sname, big).reshape(len(labels) + 1, n_ev)
                cname = "%s[%s,random_z=%s]" % (variant, label, rz)
                fin = np.isfinite(d) & (d >= 0)
                w = None
                if not fin.all():
                    t, i = np.argwhere(~fin)[0]
                    w = {"config": cname, "transformation": "identity" if t == 0 else labels[t - 1], "event": int(i), "density": float(d[t, i]),
                         "p4_untransformed": _event(sname, ps, i), "config_dict": cfg}
                acc.add("%s/finite_nonneg" % variant, cl["finite_nonneg"], fin.all(), witness=w)
                d0 = d[0]
                floor = C01_AFLOOR * float(np.mean(d0[np.isfinite(d0)])) if np.isfinite(d0).any() else 0.0
                for t, lab in enumerate(labels):
                    d1 = d[t + 1]
                    tol = rtol * np.maximum(np.abs(d0), np.abs(d1)) + floor
                    err = np.abs(d1 - d0)
                    ratio = np.where(np.isfinite(err), err / tol, np.inf)
                    kind = ("exchange" if lab.startswith("exchange") else "parity" if lab.startswith("parity") else
                            "rotation" if lab.startswith("rot") else "boost")
                    i = int(np.argmax(ratio))
                    ok = bool(ratio[i] <= 1.0)
                    ctx.count(key=(cname, lab), sample={"config": cname, "transformation": lab, "events": n_ev})
                    w = None
                    if not ok:
                        w = {"config": cname, "transformation": lab, "event": i, "density": float(d0[i]), "density_transformed": float(d1[i]),
                             "rel_diff": float(err[i] / max(abs(d0[i]), abs(d1[i]), 1e-300)), "n_events_failing": int(np.sum(ratio > 1)),
                             "n_events": n_ev, "p4_untransformed": _event(sname, ps, i),
                             "p4_transformed": {n: _f(p[(t + 1) * n_ev + i]) for n, p in zip(names, big)},
                             "lorentz_matrix(E,px,py,pz)": mats[lab].tolist() if lab in mats else "momenta of the named particles exchanged",
                             "params_seed": ctx.seed + 1, "params": {k: float(v) for k, v in amp.get_params().items()}, "rtol": rtol, "config_dict": cfg}
                    acc.add("%s/%s" % (variant, kind), cl[kind], ok, score=float(ratio[i]), witness=w)
    acc.flush()


_C01_FUNCS = ["cal_angle:cal_angle_from_momentum", "cal_angle:cal_helicity_angle", "cal_angle:cal_angle_from_particle",
              "amp.core:DecayGroup.sum_amp", "amp.core:DecayChain.get_amp", "config_loader.data:SimpleData.cal_angle"]
_C01_BOUND = ("catalogue %s; chains subsets listed in C01_CATALOGUE; random_z in {True,False}; %s seeded phase-space events x "
              "{15 axis rotations, 3 random rotations, 24 boosts (beta 1e-8,0.3,0.9,0.999 x 6 directions), 3 boost+rotation, 2 parity maps where admissible, "
              "exchange of declared identical particles}; one seeded parameter point; rtol 1e-8 + 1e-10*mean")


@group(["C01"], "iface.C01/frame_3body_integer", _C01_FUNCS, env="tf", kind="B",
       bound=_C01_BOUND % ("(0;0,0,0), (1;1,1,0) [+p_break], (1;1,0,0) identical spin-0 pair, (0;0,1,1) identical spin-1 pair", "64 (quick) / 2048 (thorough)"),
       assumes=["the helicity-formalism theorem (composition of the kernel contracts) is only sampled here, not proved"])
def c01_int3(ctx):
    _c01_run(ctx, "int3")


@group(["C01"], "iface.C01/frame_3body_halfint", _C01_FUNCS, env="tf", kind="B",
       bound=_C01_BOUND % ("(1/2;1/2,0,0) [+p_break], (1;1,1/2,1/2), (0;0,1/2,1/2) identical fermions", "64 (quick) / 2048 (thorough)"))
def c01_half3(ctx):
    _c01_run(ctx, "half3")


@group(["C01"], "iface.C01/frame_3body_strategies",
       _C01_FUNCS + ["amp.core:DecayChain.get_angle_amp", "amp.core:DecayGroup.get_factor_angle_amp", "amp.core:DecayGroup.get_m_dep",
                     "amp.preprocess:CachedAmpPreProcessor.build_cached", "amp.preprocess:CachedShapePreProcessor.build_cached",
                     "amp.preprocess:CachedAnglePreProcessor.build_cached", "amp.amp:CachedAmpAmplitudeModel.pdf", "amp.amp:CachedShapeAmplitudeModel.pdf",
                     "amp.amp:FactorAmplitudeModel.pdf"], env="tf", kind="B",
       bound=_C01_BOUND % ("(1/2;1/2,0,0), (1;1,1/2,1/2), (1;1,1,0), three chains of three topologies (and one two-chain subset), each evaluated through a non-default "
                           "(preprocessor, amp_model) pair: cached_amp/cached_amp on all three, cached_shape/cached_shape on (1/2;1/2,0,0) and (1;1,1,0), "
                           "cached_angle/base_factor on (1;1,1/2,1/2); no identical particles", "64 (quick) / 2048 (thorough)"),
       assumes=["the data object of every frame is built from that frame's momenta through the public cal_angle (nothing is cached across frames)"])
def c01_strat3(ctx):
    _c01_run(ctx, "strat3")


@group(["C01"], "iface.C01/frame_r_boost_false", _C01_FUNCS + ["angle:EulerAngle.angle_zx_zx", "cal_angle:aligned_angle_ref_rule1"], env="tf", kind="B",
       bound=_C01_BOUND % ("(1;1,1,0), (1;1,1/2,1/2), (1/2;1/2,0,0) with three chains of three topologies and the four-body (1/2;1/2,0,0,1) with three chains, "
                           "data option r_boost: False", "64 (quick) / 2048 (thorough)"))
def c01_rboost(ctx):
    _c01_run(ctx, "rboost")


@group(["C01"], "iface.C01/frame_4body", _C01_FUNCS, env="tf", kind="B",
       bound=_C01_BOUND % ("(1/2;1/2,0,0,1) cascade A->R1 D,R1->R2 C,R2->B E; second/third cascade topologies; branching A->R1 R2; p_break at the top vertex "
                           "(no parity map); chains sharing a production vertex", "64 (quick) / 2048 (thorough)"))
def c01_four(ctx):
    _c01_run(ctx, "four")


# ---------------------------------------------------------------------------------------------
# C02  bookkeeping conventions
# ---------------------------------------------------------------------------------------------
# Two loaders describe the same physics when they contain the same chains (in any declaration order), the same
# parameter values BY NAME, the default Wigner-rotation aware alignment (r_boost left at its default True) and differ only in
#   align_ref in {None (first chain / top-level producer), "center_mass"},  random_z, center_mass, only_left_angle.
# Admissibility (read from tf_pwa/cal_angle.py, aligned_angle_ref_rule2): align_ref="center_mass" refers the final
# helicities to canonical spin states of the frame the momenta are GIVEN in; that is "the parent rest frame" of the
# statement only if the momenta are in that frame, i.e. center_mass=True or events generated at rest.  The combination
# (align_ref="center_mass", center_mass=False) is therefore only evaluated on the rest-frame half of the sample.
# Same physics also requires the line shapes to be the same functions: a resonance that is declared with two decay modes
# gets its running-width angular momentum bw_l from whichever decay is declared first, so for such resonances bw_l is
# pinned in the configuration (documented particle option); the un-pinned case is a separate obligation.
# Tolerance: both sides evaluate the same scalar invariants, the difference is a common unitary rotation of the final
# helicity basis; rounding differences are O(1e-14) (no cancellation beyond that of C01 at beta=0.5).  rtol 1e-8 as C01, except for
# the "...@shared_vertex" family, which uses the conditioning-derived 1e-6 of C01_RTOL_SHARED_VERTEX (a change of reference chain
# changes which chain carries the acos(1 - O(eps)) identity alignment).
C02_RTOL = 1e-8

_OPT_GRID = [dict(align_ref=ar, random_z=rz, center_mass=cm, only_left_angle=ol)
             for ar in (None, "center_mass") for rz in (True, False) for cm in (False, True) for ol in (False, True)]

C02_CATALOGUE = {
    "three": [
        ("s110", "s110", ["bc", "bd", "cd"], None),
        ("sh00", "sh00", ["bc", "bd", "cd"], None),
        ("s1hh", "s1hh", ["bc", "bd", "cd"], None),
        # identical spin-0 particles (symmetrised amplitude: the exchange term is computed on permuted momenta with the same options) next to a spin-1 final
        ("sid0", "sid0", ["bc", "cd", "cd2"], None),
    ],
    "four": [
        ("f4", "f4", ["cas", "cas2", "br"], None),
        ("f4@shared_vertex", "f4", ["cas2", "cas3", "cas"], {"R_BCD": {"bw_l": 0}}),
        ("f4@auto_bw_l", "f4", ["cas2", "cas3"], None),
    ],
}


def _data_opts(o):
    d = {k: v for k, v in o.items() if k != "align_ref"}
    if o.get("align_ref"):
        d["align_ref"] = o["align_ref"]
    return d


def _c02_run(ctx, part):
    n_half = 24 if ctx.tier == "quick" else 512
    acc = Acc(ctx)
    rs = np.random.RandomState(ctx.seed + 202)
    for variant, sname, chains, res_over in C02_CATALOGUE[part]:
        rtol = _rtol_for(variant, C02_RTOL)
        tn = ("rtol %g" % rtol) + ("; 1e-6 because the identity alignment of the shared-vertex particle is computed as beta = acos(1 - O(eps)) = O(sqrt(eps)) "
                                   "~ 1.5e-8, see C01_RTOL_SHARED_VERTEX" if rtol != C02_RTOL else "")
        cl = {
            "chain_order": "density is the same for every permutation of the declared chain list (same parameters by name, same p4), %s" % tn,
            "options": "density is the same for every admissible setting of align_ref/random_z/center_mass/only_left_angle, %s" % tn,
            "order_and_options": "permuted chain list combined with re-optioned data section gives the same density, %s" % tn,
        }
        if variant.endswith("auto_bw_l"):
            cl = {"chain_order": cl["chain_order"]}
        for k, c in cl.items():
            acc.declare("%s/%s" % (variant, k), c)
        ps0 = M.phsp(ctx, sname, n_half, ctx.seed + 2)
        L = M.lorentz_rot(M.rot_about([1, 2, 3], 0.7)) @ M.lorentz_boost(0.5 * M.DIRS6[5])
        ps = [np.concatenate([p, p @ L.T]) for p in ps0]  # first half: parent at rest; second half: moving parent
        base_cfg = M.build_config(sname, chains=chains, res_over=res_over)
        config0, amp0 = _load(ctx, base_cfg)
        params = M.random_params(amp0, ctx.seed + 3)
        M.set_params(amp0, params)
        d0 = M.density(config0, amp0, sname, ps)
        floor = C01_AFLOOR * float(np.mean(d0))
        perms = list(itertools.permutations(chains))
        if len(perms) > 6 and ctx.tier == "quick":
            perms = perms[:1] + [perms[i] for i in sorted(rs.choice(range(1, len(perms)), 6, replace=False))]
        jobs = []
        for perm in perms[1:]:
            jobs.append(("chain_order", list(perm), {}))
        if "options" in cl:
            for o in _OPT_GRID[1:]:
                jobs.append(("options", list(chains), o))
            for perm in perms[1:]:
                jobs.append(("order_and_options", list(perm), _OPT_GRID[1 + rs.randint(len(_OPT_GRID) - 1)]))
        for kind, perm, o in jobs:
            cfg = M.build_config(sname, chains=perm, data=_data_opts(o), res_over=res_over)
            config, amp = _load(ctx, cfg)
            missing = sorted(set(params) ^ set(amp.get_params()))
            if missing:
                raise RuntimeError("parameter names differ between equivalent configurations: %s" % missing[:6])
            M.set_params(amp, params)
            d1 = M.density(config, amp, sname, ps)
            use = np.ones(len(d0), dtype=bool)
            if o.get("align_ref") == "center_mass" and not o.get("center_mass"):
                use[n_half:] = False  # inadmissible on moving-parent events, see header
            tol = rtol * np.maximum(np.abs(d0), np.abs(d1)) + floor
            err = np.abs(d1 - d0)
            ratio = np.where(np.isfinite(err), err / tol, np.inf)
            ratio = np.where(use, ratio, 0.0)
            i = int(np.argmax(ratio))
            ok = bool(ratio[i] <= 1.0)
            cname = "%s order=%s opts=%s" % (variant, ",".join(perm), _data_opts(o))
            ctx.count(key=cname, sample={"config": cname, "events": int(use.sum())})
            w = None
            if not ok:
                w = {"config": cname, "reference": "%s order=%s opts={}" % (variant, ",".join(chains)), "event": i,
                     "frame": "parent at rest" if i < n_half else "parent moving (beta=0.5)", "density_reference": float(d0[i]), "density": float(d1[i]),
                     "rel_diff": float(err[i] / max(abs(d0[i]), abs(d1[i]), 1e-300)), "n_events_failing": int(np.sum(ratio > 1)), "n_events": int(use.sum()),
                     "p4": _event(sname, ps, i), "params_seed": ctx.seed + 3, "params": {k: float(v) for k, v in params.items()}, "rtol": rtol,
                     "config_dict": cfg, "reference_config_dict": base_cfg}
            acc.add("%s/%s" % (variant, kind), cl[kind], ok, score=float(ratio[i]), witness=w)
    acc.flush()


_C02_FUNCS = ["cal_angle:cal_angle_from_particle", "cal_angle:aligned_angle_ref_rule1", "cal_angle:aligned_angle_ref_rule2", "angle:SU2M.get_euler_angle",
              "amp.core:DecayChain.get_amp", "amp.core:DecayGroup.get_amp", "particle:DecayGroup.get_chains_map"]
_C02_BOUND = ("structures %s; all permutations of the chain list (<= 3 chains; 6 sampled of 4!); 15 non-default combinations of "
              "align_ref x random_z x center_mass x only_left_angle (align_ref=center_mass without center_mass only on rest-frame events); one seeded "
              "option combination per permutation; 2 x 24 (quick) / 2 x 512 (thorough) seeded phase-space events (parent at rest / boosted by beta=0.5); "
              "one seeded parameter point set by name; rtol 1e-8")
_C02_ASSUMES = ["align_ref='center_mass' is admissible only for momenta given in the parent rest frame (center_mass=True or rest-frame events)",
                "a resonance with two declared decay modes has bw_l pinned in the configuration (otherwise the running width depends on the declaration order; "
                "checked separately by .../f4@auto_bw_l/chain_order)"]


@group(["C02"], "iface.C02/conventions_3body", _C02_FUNCS, env="tf", kind="B",
       bound=_C02_BOUND % "(1;1,1,0), (1/2;1/2,0,0), (1;1,1/2,1/2), three chains of three different topologies each", assumes=_C02_ASSUMES)
def c02_three(ctx):
    _c02_run(ctx, "three")


@group(["C02"], "iface.C02/conventions_4body", _C02_FUNCS, env="tf", kind="B",
       bound=_C02_BOUND % "(1/2;1/2,0,0,1) with two cascade topologies + branching; cascades sharing the production vertex; un-pinned bw_l",
       assumes=_C02_ASSUMES)
def c02_four(ctx):
    _c02_run(ctx, "four")


# ---------------------------------------------------------------------------------------------
# C03  superposition, coupling homogeneity, fit fractions
# ---------------------------------------------------------------------------------------------
# Tolerances.  A partial sum adds the same complex numbers in a possibly different order: the difference is a few ulp of
# the largest term, so |A_S - sum_k A_k| <= 1e-10 * max_element(sum_k |A_k|) (four orders above rounding).  Fit
# fractions are ratios of sums of N <= 2048 positive terms: re-batching changes the summation order only, error <= N*ulp;
# 1e-10 absolute on quantities of order one.


def _chain_res(sname, ck):
    st = M.STRUCTS[sname]
    out = []
    for core, outs in st["chains"][ck]:
        for o in (core,) + tuple(outs):
            if o in st["res"] and o not in out:
                out.append(o)
    return out


def _amp3(amp, data):
    return np.asarray(amp.decay_group.get_amp3(data))


def _total_names(amp, k):
    base = amp.decay_group.chains[k].total.name
    return base + "_0r", base + "_0i"


C03_SUPER = [("s000", None), ("s110", None), ("sh00", None), ("sid0", None), ("f4", None)]


@group(["C03"], "iface.C03/superposition",
       ["amp.core:DecayGroup.get_amp", "amp.core:DecayGroup.get_amp3", "amp.core:DecayGroup.set_used_chains", "amp.core:DecayGroup.set_used_res",
        "amp.core:DecayGroup.temp_used_res", "amp.core:DecayChain.get_amp"], env="tf", kind="B",
       bound="structures (0;0,0,0), (1;1,1,0), (1/2;1/2,0,0), (1;1,0,0)+identical pair (3 chains each), 4-body (4 chains of 3 topologies); every non-empty "
             "subset of chains via set_used_chains; every non-empty subset of resonances via set_used_res / temp_used_res; each chain coupling scaled by "
             "3 complex factors; 16 (quick) / 256 (thorough) seeded phase-space events; one seeded parameter point")
def c03_super(ctx):
    n_ev = 16 if ctx.tier == "quick" else 256
    acc = Acc(ctx)
    for sname, _ in C03_SUPER:
        keys = list(M.STRUCTS[sname]["chains"])
        cl = {
            "subset_sum": "get_amp3 with set_used_chains(S) == sum over k in S of the single-chain amplitudes, for every non-empty S (1e-10 of the largest term)",
            "density_of_subset": "model(data) with chains S selected == sum over helicities |sum_{k in S} A_k|^2 (rtol 1e-10)",
            "resonance_selection": "set_used_res / temp_used_res(R) selects exactly the chains that contain a resonance of R; afterwards the full sum is restored",
            "coupling_homogeneity": "scaling chain k's total coupling by c multiplies A_k by c and leaves every other chain amplitude unchanged",
        }
        for k, c in cl.items():
            acc.declare("%s/%s" % (sname, k), c)
        cfg = M.build_config(sname, chains=keys)
        config, amp = _load(ctx, cfg)
        params = M.random_params(amp, ctx.seed + 5)
        M.set_params(amp, params)
        ps = M.phsp(ctx, sname, n_ev, ctx.seed + 4)
        data = M.cal_data(config, sname, ps)
        dg = amp.decay_group
        names = M.chain_names(amp)
        n = len(names)
        assert n == len(keys)
        # map catalogue chains to the library's chain indices through the resonance content (declaration order is not assumed)
        idx_of = {}
        for ck in keys:
            want = sorted(M.nm(sname, r) for r in _chain_res(sname, ck))
            hit = [i for i, c in enumerate(dg.chains) if sorted(str(r) for r in c.inner) == want]
            assert len(hit) == 1, (ck, want, names)
            idx_of[ck] = hit[0]
        single = {}
        for i in range(n):
            dg.set_used_chains([i])
            single[i] = _amp3(amp, data)
        scale = float(np.max(sum(np.abs(a) for a in single.values()))) or 1.0

        def cmp(a, b, what, extra):
            err = np.abs(a - b)
            j = int(np.argmax(err))
            ok = bool(np.all(np.isfinite(a)) and err.reshape(-1)[j] <= 1e-10 * scale)
            w = None
            if not ok:
                ev = int(np.unravel_index(j, err.shape)[0])
                w = dict(extra, structure=sname, what=what, event=ev, helicity_index=[int(x) for x in np.unravel_index(j, err.shape)[1:]],
                         got=str(a.reshape(-1)[j]), expected=str(b.reshape(-1)[j]), scale=scale, p4=_event(sname, ps, ev), config_dict=cfg,
                         params_seed=ctx.seed + 5, library_chain_order=names)
            return ok, float(err.reshape(-1)[j] / (1e-10 * scale)), w

        for S in M.subsets(range(n)):
            dg.set_used_chains(list(S))
            a = _amp3(amp, data)
            ref = sum(single[i] for i in S)
            ok, sc, w = cmp(a, ref, "set_used_chains(%s)" % (S,), {"subset": list(S)})
            ctx.count(key=(sname, "subset", tuple(S)), sample={"structure": sname, "subset": list(S)})
            acc.add("%s/subset_sum" % sname, cl["subset_sum"], ok, sc, w)
            dens = np.asarray(amp(data))
            dref = np.sum(np.abs(ref) ** 2, axis=tuple(range(1, ref.ndim)))
            e = np.abs(dens - dref) / np.maximum(np.abs(dref), 1e-300)
            j = int(np.argmax(e))
            okd = bool(np.all(np.isfinite(dens)) and e[j] <= 1e-10)
            acc.add("%s/density_of_subset" % sname, cl["density_of_subset"], okd, float(e[j] / 1e-10),
                    None if okd else {"structure": sname, "subset": list(S), "event": j, "density": float(dens[j]), "expected": float(dref[j]),
                                      "p4": _event(sname, ps, j), "config_dict": cfg, "params_seed": ctx.seed + 5})
        dg.set_used_chains(list(range(n)))
        # resonance selection
        all_res = []
        for ck in keys:
            for r in _chain_res(sname, ck):
                if r not in all_res:
                    all_res.append(r)
        full = sum(single.values())
        for R in M.subsets(all_res, 1, 2 if ctx.tier == "quick" else 3):
            want = sorted(idx_of[ck] for ck in keys if set(_chain_res(sname, ck)) & set(R))
            ref = sum(single[i] for i in want)
            rn = [M.nm(sname, r) for r in R]
            amp.set_used_res(rn)
            a = _amp3(amp, data)
            dg.set_used_chains(list(range(n)))
            ok, sc, w = cmp(a, ref, "set_used_res(%s)" % rn, {"resonances": rn, "expected_chains": want})
            acc.add("%s/resonance_selection" % sname, cl["resonance_selection"], ok, sc, w)
            with amp.temp_used_res(rn):
                a = _amp3(amp, data)
            ok, sc, w = cmp(a, ref, "temp_used_res(%s)" % rn, {"resonances": rn, "expected_chains": want})
            acc.add("%s/resonance_selection" % sname, cl["resonance_selection"], ok, sc, w)
            a = _amp3(amp, data)
            ok, sc, w = cmp(a, full, "full amplitude after temp_used_res(%s)" % rn, {"resonances": rn})
            acc.add("%s/resonance_selection" % sname, cl["resonance_selection"], ok, sc, w)
            ctx.count(key=(sname, "res", tuple(R)), sample={"structure": sname, "resonances": rn})
        # homogeneity in the chain coupling
        for k in range(n):
            nr, ni = _total_names(amp, k)
            for c in (2.5, -0.4 + 0.0j, 0.3 - 1.7j):
                c = complex(c)
                M.set_params(amp, {nr: params[nr] * abs(c), ni: params[ni] + math.atan2(c.imag, c.real)})
                for i in range(n):
                    dg.set_used_chains([i])
                    a = _amp3(amp, data)
                    ref = single[i] * (c if i == k else 1.0)
                    ok, sc, w = cmp(a, ref, "chain %d after scaling total of chain %d by %s" % (i, k, c), {"scaled_chain": k, "factor": str(c)})
                    acc.add("%s/coupling_homogeneity" % sname, cl["coupling_homogeneity"], ok, sc, w)
                dg.set_used_chains(list(range(n)))
                a = _amp3(amp, data)
                ref = sum(single[i] * (c if i == k else 1.0) for i in range(n))
                ok, sc, w = cmp(a, ref, "full amplitude after scaling total of chain %d by %s" % (k, c), {"scaled_chain": k, "factor": str(c)})
                acc.add("%s/coupling_homogeneity" % sname, cl["coupling_homogeneity"], ok, sc, w)
                ctx.count(key=(sname, "scale", k, str(c)), sample={"structure": sname, "chain": k, "factor": str(c)})
                M.set_params(amp, {nr: params[nr], ni: params[ni]})
    acc.flush()


# fit fractions --------------------------------------------------------------------------------
# (label, structure, chains, listed resonances (None = all), entry points)
C03_FF = [
    ("s110", "s110", ["bc", "bd", "cd"], None, ("applications.fit_fractions", "FitFractions", "ConfigLoader.cal_fitfractions", "weighted")),
    ("sh00", "sh00", ["bc", "bd", "cd"], None, ("applications.fit_fractions",)),
    ("sid0", "sid0", ["bc", "cd", "cd2"], None, ("applications.fit_fractions",)),
    ("f4", "f4", ["cas", "cas2"], ["R_BE", "R_BC"], ("applications.fit_fractions",)),
]


@group(["C03"], "iface.C03/fit_fractions",
       ["fitfractions:cal_fitfractions", "fitfractions:FitFractions.integral", "fitfractions:FitFractions.append_int", "fitfractions:FitFractions.get_frac_grad",
        "fitfractions:sum_gradient", "applications:fit_fractions", "config_loader.config_loader:ConfigLoader.cal_fitfractions"], env="tf", kind="B",
       bound="structures (1;1,1,0) [three entry points + weighted sample], (1/2;1/2,0,0), (1;1,0,0)+identical pair with two resonances in one topology, "
             "4-body two cascades with one listed resonance per chain; N = 10 (quick) / 60 (thorough) seeded phase-space events; "
             "batch in {1, 7, N-1, N, N+1, 65000}; one seeded parameter point",
       assumes=["sum rule precondition: every chain contains exactly one of the listed resonances (the identity is false otherwise for any implementation)"])
def c03_ff(ctx):
    n_ev = 10 if ctx.tier == "quick" else 60
    acc = Acc(ctx)
    app = ctx.mod("applications")
    for label, sname, chains, res, entries in C03_FF:
        cl = {
            "definition": "FF_i == sum_w|A_i|^2 / sum_w|sum_k A_k|^2 and FF_ij == sum_w 2Re(A_i conj A_j) / sum_w|sum_k A_k|^2 (single-chain amplitudes from get_amp3), 1e-9",
            "sum_rule": "sum_i FF_i + sum_{i<j} FF_ij == 1 (one listed resonance per chain), 1e-10",
            "batch_independence": "fit fractions identical for batch in {1, 7, N-1, N, N+1, 65000} (1e-10)",
        }
        for k, c in cl.items():
            acc.declare("%s/%s" % (label, k), c)
        cfg = M.build_config(sname, chains=chains)
        config, amp = _load(ctx, cfg)
        params = M.random_params(amp, ctx.seed + 7)
        M.set_params(amp, params)
        ps = M.phsp(ctx, sname, n_ev, ctx.seed + 6)
        data = M.cal_data(config, sname, ps)
        dg = amp.decay_group
        n = len(dg.chains)
        res_names = [M.nm(sname, r) for r in res] if res else sorted(str(r) for r in amp.res)
        # precondition of the sum rule, from the catalogue (not from the library's selection code)
        per_chain = [[r for r in res_names if r in [str(x) for x in c.inner]] for c in dg.chains]
        assert all(len(x) == 1 for x in per_chain), per_chain
        single = {}
        for i in range(n):
            dg.set_used_chains([i])
            single[i] = _amp3(amp, data)
        dg.set_used_chains(list(range(n)))
        A_res = {r: sum(single[i] for i in range(n) if per_chain[i][0] == r) for r in res_names}
        hel = tuple(range(1, single[0].ndim))
        rsw = np.random.RandomState(ctx.seed + 8).uniform(0.2, 1.8, size=n_ev)

        def oracle(w):
            tot = np.sum(w * np.sum(np.abs(sum(single.values())) ** 2, axis=hel))
            ff = {}
            for a in res_names:
                ff[a] = float(np.sum(w * np.sum(np.abs(A_res[a]) ** 2, axis=hel)) / tot)
            for a, b in itertools.combinations(res_names, 2):
                ff[frozenset((a, b))] = float(np.sum(w * np.sum(2 * np.real(A_res[a] * np.conj(A_res[b])), axis=hel)) / tot)
            return ff

        def norm(fr):
            out = {}
            for k, v in fr.items():
                if k == "sum_diag":
                    continue
                out[frozenset(k) if isinstance(k, tuple) else k] = float(v)
            return out

        batches = [1, 7, n_ev - 1, n_ev, n_ev + 1, 65000]
        for entry in entries:
            mc = data
            w = np.ones(n_ev)
            if entry == "weighted":
                mc = type(data)(data)
                mc["weight"] = rsw.copy()
                w = rsw
            ref = oracle(w)
            first = None
            for b in (batches if entry != "weighted" else [7, n_ev + 1]):
                with _quiet():
                    if entry in ("applications.fit_fractions", "weighted"):
                        fr, _ = app.fit_fractions(amp, mc, batch=b, res=list(res_names) if res else None)
                    elif entry == "FitFractions":
                        fr, _ = app.fit_fractions(amp, mc, batch=b, res=list(res_names), method="new").get_frac()
                    else:
                        fr, _ = config.cal_fitfractions(mcdata=mc, batch=b, res=list(res_names) if res else None)
                fr = norm(fr)
                ctx.count(key=(label, entry, b), sample={"structure": label, "entry": entry, "batch": b, "N": n_ev})
                base = {"structure": label, "entry_point": entry, "batch": b, "N": n_ev, "config_dict": cfg, "params_seed": ctx.seed + 7,
                        "fit_fractions": {str(sorted(k)) if isinstance(k, frozenset) else k: v for k, v in fr.items()}}
                ok = set(fr) == set(ref) and all(np.isfinite(v) and abs(v - ref[k]) <= 1e-9 * max(1.0, abs(ref[k])) for k, v in fr.items())
                acc.add("%s/definition" % label, cl["definition"], ok, 0.0,
                        None if ok else dict(base, expected={str(sorted(k)) if isinstance(k, frozenset) else k: v for k, v in ref.items()}))
                s = sum(fr.values())
                ok = abs(s - 1.0) <= 1e-10
                acc.add("%s/sum_rule" % label, cl["sum_rule"], ok, abs(s - 1.0) / 1e-10, None if ok else dict(base, sum=s))
                if first is None:
                    first = (b, fr)
                else:
                    dmax = max(abs(fr[k] - first[1][k]) for k in first[1]) if set(fr) == set(first[1]) else float("inf")
                    ok = dmax <= 1e-10
                    acc.add("%s/batch_independence" % label, cl["batch_independence"], ok, dmax / 1e-10,
                            None if ok else dict(base, reference_batch=first[0], max_abs_diff=dmax,
                                                 reference={str(sorted(k)) if isinstance(k, frozenset) else k: v for k, v in first[1].items()}))
            # the sample must be left untouched and the full model restored
            assert dg.chains_idx == list(range(n)) or sorted(dg.chains_idx) == list(range(n))
    acc.flush()


# ---------------------------------------------------------------------------------------------
# C04  closed form for spinless cascades
# ---------------------------------------------------------------------------------------------
# Reference written from the statement and docs/amplitude.rst (NOT from tf_pwa/breit_wigner.py or amp/core.py):
#   density = | sum_k c_k (-1)^J q^J p^J B_J(q,q0) B_J(p,p0) BW_k(m_k) P_J(cos theta_k) |^2        (global normalisation 1)
#   c_k      product of the chain's complex couplings (chain "total" and the g_ls of its two vertices), each r*exp(i*phi)
#            (polar convention documented in tf_pwa.variable.VarsManager.add_complex_var)
#   m_k      invariant mass of the resonance's daughters; q their momentum in the resonance frame; p the resonance momentum in the
#            parent frame, all three computed from the four-momenta of the event; q0, p0 the same two-body momenta evaluated with
#            the NOMINAL masses (resonance mass m0, nominal parent and final-state masses)
#   B_J(x,x0) = sqrt(|theta_J(i x0 d)|^2 / |theta_J(i x d)|^2), theta_J the reverse Bessel polynomial, d = 3.0 GeV^-1 (docs: default)
#   BW        = 1/(m0^2 - m^2 - i m0 Gamma(m)),  Gamma(m) = Gamma0 (q/q0)^(2J+1) (m0/m) B_J(q,q0)^2
#   theta_k   angle, in the resonance rest frame, between the FIRST declared daughter and the resonance's direction of flight
#   P_J       Legendre polynomial
# Tolerance: every factor is a smooth function evaluated once on both sides; the worst conditioning is q^(2J) near threshold
# (relative error of q^2 about 1e-16/(2 m (m - m1 - m2)) = 1e-12 at 1e-4 above threshold, times 2J <= 8) and the Breit-Wigner
# (m0/Gamma <= 200).  rtol 1e-8 with an absolute floor 1e-12 * mean density.
C04_RTOL = 1e-8
C04_TRIPLES = [(0, 1, 2), (1, 2, 3), (2, 3, 4), (3, 4, 0), (4, 0, 1), (0, 0, 0), (4, 4, 4), (2, 1, 3), (3, 3, 1), (1, 4, 2),
               (1, 1, 1), (2, 2, 2), (3, 0, 4), (0, 2, 4), (4, 3, 2), (3, 3, 3)]


def _theta_sq(L, z):
    """|theta_L(i sqrt z)|^2 with theta_L(x) = sum_k (L+k)! / ((L-k)! k! 2^k) x^(L-k)"""
    x = 1j * np.sqrt(np.asarray(z, dtype=complex))
    s = 0
    for k in range(L + 1):
        s = s + math.factorial(L + k) / (math.factorial(L - k) * math.factorial(k) * 2.0**k) * x ** (L - k)
    return np.abs(s) ** 2


def _blatt_weisskopf(L, x2, x02, d=3.0):
    return np.sqrt(_theta_sq(L, x02 * d * d) / _theta_sq(L, x2 * d * d))


def _breakup2(m, m1, m2):
    return (m * m - (m1 + m2) ** 2) * (m * m - (m1 - m2) ** 2) / (4 * m * m)


def _inv_mass(p):
    return np.sqrt(p[:, 0] ** 2 - np.sum(p[:, 1:] ** 2, axis=1))


def _to_rest_frame(p, P):
    """four-vectors p seen in the rest frame of P (textbook boost with velocity -P_vec/P_0)"""
    M_ = _inv_mass(P)
    b = P[:, 1:] / P[:, 0:1]
    g = (P[:, 0] / M_)[:, None]
    bp = np.sum(b * p[:, 1:], axis=1, keepdims=True)
    b2 = np.sum(b * b, axis=1, keepdims=True)
    k = np.where(b2 > 0, (g - 1) / np.where(b2 > 0, b2, 1.0), 0.0)
    sp = p[:, 1:] + (k * bp - g * p[:, 0:1]) * b
    E = g[:, 0] * (p[:, 0] - bp[:, 0])
    return np.concatenate([E[:, None], sp], axis=1)


def c04_reference(sname, chains, params, ps):
    """numpy closed form; ps in the parent rest frame, list ordered as the finals of the structure"""
    st = M.STRUCTS[sname]
    fm = {n: d["mass"] for n, d in st["finals"]}
    P = dict(zip([n for n, _ in st["finals"]], ps))
    MA = st["top"][1]["mass"]
    A = 0
    for ck in chains:
        r, a, b, spect = st["pairs"][ck]
        J = st["res"][r]["J"]
        rn = M.nm(sname, r)
        m0, g0 = params[rn + "_mass"], params[rn + "_width"]
        R = P[a] + P[b]
        m = _inv_mass(R)
        q2, q02 = _breakup2(m, _inv_mass(P[a]), _inv_mass(P[b])), _breakup2(m0, fm[a], fm[b])
        p2, p02 = _breakup2(_inv_mass(R + P[spect]), m, _inv_mass(P[spect])), _breakup2(MA, m0, fm[spect])
        pa = _to_rest_frame(P[a], R)
        na, nr = np.linalg.norm(pa[:, 1:], axis=1), np.linalg.norm(R[:, 1:], axis=1)
        cos = np.sum(pa[:, 1:] * R[:, 1:], axis=1) / np.where(na * nr > 0, na * nr, 1.0)
        q2 = np.maximum(q2, 0.0)
        gamma = g0 * np.sqrt(q2 / q02) ** (2 * J + 1) * (m0 / m) * _blatt_weisskopf(J, q2, q02) ** 2
        bw = 1.0 / (m0 * m0 - m * m - 1j * m0 * gamma)
        c = 1.0 + 0j
        n_c = 0
        for name in params:
            if name.endswith("r") and (rn + "->" in name or "->" + rn + "." in name):
                c = c * params[name] * np.exp(1j * params[name[:-1] + "i"])
                n_c += 1
        assert n_c == 3, (rn, n_c)  # chain total, production vertex g_ls, decay vertex g_ls
        leg = np.polynomial.legendre.legval(cos, [0] * J + [1])
        A = A + c * (-1) ** J * np.sqrt(q2) ** J * np.sqrt(p2) ** J * _blatt_weisskopf(J, q2, q02) * _blatt_weisskopf(J, p2, p02) * bw * leg
    return np.abs(A) ** 2


def _c04_params(amp, sname, rs):
    """seeded masses inside the kinematic range, widths, complex couplings"""
    st = M.STRUCTS[sname]
    fm = {n: d["mass"] for n, d in st["finals"]}
    MA = st["top"][1]["mass"]
    new = {}
    for name in sorted(amp.get_params()):
        if name.endswith("_mass") or name.endswith("_width"):
            continue
        new[name] = rs.uniform(0.2, 3.0) if name.endswith("r") else rs.uniform(-math.pi, math.pi)
    for ck, (r, a, b, spect) in st["pairs"].items():
        rn = M.nm(sname, r)
        if rn + "_mass" in amp.get_params():
            lo, hi = fm[a] + fm[b], MA - fm[spect]
            new[rn + "_mass"] = rs.uniform(lo + 0.1 * (hi - lo), hi - 0.1 * (hi - lo))
            new[rn + "_width"] = float(np.exp(rs.uniform(math.log(0.02), math.log(0.5))))
    return new


def _c04_run(ctx, which):
    n_ev = 64 if ctx.tier == "quick" else 2048
    triples = list(C04_TRIPLES)
    if ctx.tier != "quick":
        rs0 = np.random.RandomState(ctx.seed + 404)
        triples += [tuple(int(x) for x in rs0.randint(0, 5, size=3)) for _ in range(50)]
    acc = Acc(ctx)
    cl = {"finite_nonneg": "density finite and >= 0"}
    for J in range(5):
        cl["single_chain/J=%d" % J] = ("one chain through a spin-%d resonance: density == |c (-1)^J q^J p^J B_J(q) B_J(p) BW(m) P_J(cos theta)|^2 "
                                       "(absolute normalisation 1), rtol 1e-8" % J)
    cl["two_chains"] = "two interfering chains: density == |sum_k ...|^2 (fixes relative signs and phases), rtol 1e-8"
    cl["three_chains"] = "three interfering chains: density == |sum_k ...|^2, rtol 1e-8"
    for k, c in cl.items():
        acc.declare(k, c)
    msets = list(M.MASS_SETS)
    for di, spins in enumerate(triples):
        if di % 2 != which:
            continue
        mset = msets[di % len(msets)]
        sname = M.spinless_struct(mset, spins)
        st = M.STRUCTS[sname]
        rs = np.random.RandomState(ctx.seed * 1000 + di)
        ps = M.phsp(ctx, sname, n_ev, ctx.seed + di)
        bd = M.boundary_events(mset, ctx.seed + di)
        ps = [np.concatenate([p, b]) for p, b in zip(ps, bd)]
        keys = list(st["chains"])
        full_cfg = M.build_config(sname, chains=keys)
        _, amp_full = _load(ctx, full_cfg)
        params = _c04_params(amp_full, sname, rs)
        for S in M.subsets(keys):
            cfg = M.build_config(sname, chains=S)
            config, amp = _load(ctx, cfg)
            sub = {k: v for k, v in params.items() if k in amp.get_params()}
            assert set(sub) == set(amp.get_params())
            M.set_params(amp, sub)
            d = M.density(config, amp, sname, ps)
            ref = c04_reference(sname, S, sub, ps)
            cname = "%s chains=%s" % (sname, ",".join(S))
            fin = np.isfinite(d) & (d >= 0)
            acc.add("finite_nonneg", cl["finite_nonneg"], bool(fin.all()), 0.0,
                    None if fin.all() else {"config": cname, "event": int(np.argmin(fin)), "density": float(d[int(np.argmin(fin))]), "config_dict": cfg})
            tol = C04_RTOL * np.maximum(np.abs(d), np.abs(ref)) + 1e-12 * float(np.mean(ref))
            err = np.abs(d - ref)
            ratio = np.where(np.isfinite(err), err / tol, np.inf)
            i = int(np.argmax(ratio))
            ok = bool(ratio[i] <= 1.0)
            if len(S) == 1:
                name = "single_chain/J=%d" % st["res"][st["pairs"][S[0]][0]]["J"]
            else:
                name = "two_chains" if len(S) == 2 else "three_chains"
            ctx.count(key=cname + "|%d" % di, sample={"config": cname, "spins": list(spins), "events": len(d)})
            w = None
            if not ok:
                w = {"config": cname, "spins(R_BC,R_BD,R_CD)": list(spins), "event": i, "event_kind": "phase space" if i < n_ev else "boundary grid",
                     "density": float(d[i]), "closed_form": float(ref[i]), "ratio": float(d[i] / ref[i]) if ref[i] else None,
                     "n_events_failing": int(np.sum(ratio > 1)), "n_events": len(d), "p4": _event(sname, ps, i),
                     "params": {k: float(v) for k, v in sub.items()}, "config_dict": cfg}
            acc.add(name, cl[name], ok, float(ratio[i]), w)
    acc.flush()


_C04_FUNCS = ["amp.core:HelicityDecay._get_cg_matrix", "amp.core:HelicityDecay.get_barrier_factor2", "breit_wigner:BWR", "breit_wigner:Gamma",
              "breit_wigner:Bprime_q2", "dfun:small_d_matrix", "amp.core:DecayChain.get_amp", "cal_angle:cal_helicity_angle"]
_C04_BOUND = ("spin-0 parent -> three spin-0 finals, 3 mass sets, resonance spin triples %s (+50 seeded triples in thorough), every non-empty subset of the three "
              "chains (separately built configurations); per triple one seeded draw of masses (inner 80 %% of the kinematic range), widths (0.02..0.5), "
              "complex couplings; 64 (quick) / 2048 (thorough) phase-space events + 75 boundary-grid events; rtol 1e-8")


@group(["C04"], "iface.C04/closed_form_a", _C04_FUNCS, env="tf", kind="B", bound=_C04_BOUND % (C04_TRIPLES[0::2],),
       assumes=["model: default (BWR) with running width, d = 3.0; the statement's B_J are the ratios B'_J(x, x0, d) of docs/amplitude.rst"])
def c04_a(ctx):
    _c04_run(ctx, 0)


@group(["C04"], "iface.C04/closed_form_b", _C04_FUNCS, env="tf", kind="B", bound=_C04_BOUND % (C04_TRIPLES[1::2],),
       assumes=["model: default (BWR) with running width, d = 3.0; the statement's B_J are the ratios B'_J(x, x0, d) of docs/amplitude.rst"])
def c04_b(ctx):
    _c04_run(ctx, 1)


# ---------------------------------------------------------------------------------------------
# C05(b)  evaluation strategies selectable in the data section
# ---------------------------------------------------------------------------------------------
# Option names read from tf_pwa/config_loader/data.py (preprocessor, lazy_call, no_p4, no_angle), config_loader.py
# get_amplitude (amp_model, use_tf_function, no_id_cached, jit_compile) and _get_model (cached_int, cached_amp, model).
# Compatible (preprocessor, amp_model) pairs = the pairs for which the amplitude model finds the cached quantities it needs:
C05_PAIRS = [("default", "default"), ("cached_amp", "cached_amp"), ("cached_shape", "cached_shape"), ("cached_angle", "base_factor"),
             ("default", "base_factor"), ("p4_directly", "p4_directly"), ("cached_amp", "default"), ("cached_angle", "default")]
C05_VARIANTS = {
    "eager": {},
    "eager+lazy": {"lazy_call": True},
    "tf": {"use_tf_function": True},
    "tf+jit": {"use_tf_function": True, "jit_compile": True},
    "tf+noid+lazy": {"use_tf_function": True, "no_id_cached": True, "lazy_call": True},
    "tf+noid": {"use_tf_function": True, "no_id_cached": True},
    "tf+lazy": {"use_tf_function": True, "lazy_call": True},
    "tf+jit+noid": {"use_tf_function": True, "jit_compile": True, "no_id_cached": True},
    "tf+jit+lazy": {"use_tf_function": True, "jit_compile": True, "lazy_call": True},
}
# Tolerance: all strategies evaluate the same products in a different association order (cached tensors, fused XLA kernels);
# observed differences are a few ulp.  Base rtol 1e-9 (as in DESIGN C05) + the C01 absolute floor.
C05_RTOL = 1e-9
# Per-event conditioning.  A strategy that recomputes kinematic quantities in a differently compiled program (p4_directly inside
# tf.function / XLA) is at best backward stable: it returns the exact density of momenta a few ulp away.  How much the density of ONE
# event moves under such a perturbation is a property of the event (and parameters), not of the strategy, and is MEASURED on the
# reference itself: the plain eager default density is re-evaluated on C05_NPERT copies of the events with every momentum component
# scaled by 1 +- 4e-16 (seeded signs); sens_i = largest relative change of event i.  The relative tolerance of event i is
#     rtol_i = min( max(base, C05_K * sens_i), C05_RTOL_CAP )
# C05_K = 50: a strategy commits one such rounding in each of O(10^2) intermediate quantities, the probe samples only C05_NPERT random
# sign patterns.  For a well conditioned event sens_i ~ 1e-14, so rtol_i = base; the cap keeps any measured sensitivity from excusing
# a wrong strategy (those differ by >> 1e-6, on most events).
C05_K = 50.0
C05_NPERT = 2
C05_RTOL_CAP = 1e-6
# base: 1e-9, except for configurations with the "shared vertex" geometry analysed for C01 (C01_RTOL_SHARED_VERTEX above): two chains
# of different topology share the production vertex of a spinning final particle, the alignment angle beta = acos(1 - O(eps)) carries
# an absolute rounding error O(sqrt(2 eps)) ~ 1.5e-8 that JUMPS between discrete values (0, 1.5e-8, 2.1e-8) with the rounding of its
# argument, so a finite number of probes sees it only on some events (observed: 3.2e-9 on 2 of 256 events for p4_directly under
# tf.function, the same 3.2e-9 reproduced by the probe on one of them and missed on the other).  There the derived bound of C01 is used.


def _recomputes_kinematics(pair):
    """(preprocessor, amp_model) pairs whose amplitude model derives masses / angles from the four-momenta itself"""
    return "p4_directly" in pair


def _c05_base_rtol(sname, chains):
    ch = set(M.STRUCTS[sname]["chains"] if chains is None else chains)
    return C01_RTOL_SHARED_VERTEX if (sname == "f4" and {"cas2", "cas3"} <= ch) else C05_RTOL


def _c05_rtol(ref, pert, base):
    """-> (per-event rtol, per-event measured sensitivity); pert: default densities of the ulp-perturbed copies of the events"""
    sens = np.zeros_like(ref)
    for dp in pert:
        s_ = np.abs(dp - ref) / np.maximum(np.abs(ref), 1e-300)
        sens = np.maximum(sens, np.where(np.isfinite(s_), s_, 0.0))
    return np.minimum(np.maximum(base, C05_K * sens), max(base, C05_RTOL_CAP)), sens


_C05_TOL_TEXT = ("rtol per event = max(%g, 50 x relative change of the plain default density of that event when every momentum component is perturbed by "
                 "4e-16 relative (2 seeded probes)), capped at 1e-6")


def _xla_available(ctx):
    tf = ctx.mod("tensorflow_wrapper").tf
    try:
        f = tf.function(lambda x: x * 2.0 + 1.0, jit_compile=True)
        return bool(np.allclose(f(tf.constant([1.0, 2.0], dtype=tf.float64)).numpy(), [3.0, 5.0]))
    except Exception:
        return False


def _c05_density_jobs(ctx, acc, label, sname, chains, jobs, n_ev, xla, seed_off=0):
    """jobs: list of ((pre, amp_model), variant name, extra data options)"""
    cl = {}
    base = _c05_base_rtol(sname, chains)
    for am in sorted({j[0][1] for j in jobs}):
        cl[am] = ("amp_model=%s (with its compatible preprocessors, eager / tf.function / XLA / lazy_call variants): density == plain eager default density, "
                  "on first call, second call (compiled path) and on a second data object, %s" % (am, _C05_TOL_TEXT % base))
        acc.declare("%s/%s" % (label, am), cl[am])
    ps = M.phsp(ctx, sname, n_ev, ctx.seed + 50 + seed_off)
    ps2 = M.phsp(ctx, sname, n_ev + 3, ctx.seed + 51 + seed_off)
    ref_cfg = M.build_config(sname, chains=chains)
    config0, amp0 = _load(ctx, ref_cfg)
    params = M.random_params(amp0, ctx.seed + 52, shape=False)
    M.set_params(amp0, params)
    ref = [M.density(config0, amp0, sname, ps), M.density(config0, amp0, sname, ps2)]
    floor = [C01_AFLOOR * float(np.mean(r)) for r in ref]
    rtol, sens = zip(*[_c05_rtol(r, [M.density(config0, amp0, sname, M.ulp_perturbed(pp, j)) for j in range(C05_NPERT)], base) for r, pp in zip(ref, (ps, ps2))])
    for (pre, am), vname, extra in jobs:
        o = dict(C05_VARIANTS[vname])
        if o.get("jit_compile") and not xla:
            ctx.count(key=(label, pre, am, vname, "skipped"), sample={"skipped": "XLA unavailable", "structure": label, "options": o})
            continue
        o.update({"preprocessor": pre, "amp_model": am})
        o.update(extra or {})
        cfg = M.build_config(sname, chains=chains, data=o)
        cname = "%s pre=%s amp_model=%s %s%s" % (label, pre, am, vname, (" " + str(extra)) if extra else "")
        # the statement says every selectable strategy RETURNS the default density: an exception raised by a strategy on valid
        # input (the plain default path above worked) is a refutation of that clause, not a machinery error
        stage = "build"
        try:
            with _quiet():
                config, amp = M.load(ctx, cfg)
                M.set_params(amp, params)
                stage = "cal_angle(first data)"
                data = M.cal_data(config, sname, ps)
                stage = "first call"
                d = [np.asarray(amp(data), dtype=float)]
                stage = "second call on the same data object"
                d.append(np.asarray(amp(data), dtype=float))
                stage = "cal_angle(second data)"
                data2 = M.cal_data(config, sname, ps2)
                stage = "first call on a second data object"
                d.append(np.asarray(amp(data2), dtype=float))
                stage = "second call on the second data object"
                d.append(np.asarray(amp(data2), dtype=float))
        except Exception as ex:  # noqa: BLE001
            ctx.count(key=cname, sample={"config": cname, "events": n_ev})
            acc.add("%s/%s" % (label, am), cl[am], False, np.inf,
                    {"config": cname, "call": stage, "exception": _exc(ex), "config_dict": cfg,
                     "reference_config_dict": ref_cfg, "params_seed": ctx.seed + 52})
            continue
        ctx.count(key=cname, sample={"config": cname, "events": n_ev})
        for k, (dk, what) in enumerate(zip(d, ("first call", "second call on the same data object", "first call on a second data object",
                                               "second call on the second data object"))):
            r, fl, pp, rt, sn = (ref[0], floor[0], ps, rtol[0], sens[0]) if k < 2 else (ref[1], floor[1], ps2, rtol[1], sens[1])
            if dk.shape != r.shape:
                acc.add("%s/%s" % (label, am), cl[am], False, np.inf, {"config": cname, "call": what, "shape": list(dk.shape), "expected_shape": list(r.shape), "config_dict": cfg})
                continue
            tol = rt * np.maximum(np.abs(dk), np.abs(r)) + fl
            err = np.abs(dk - r)
            ratio = np.where(np.isfinite(err), err / tol, np.inf)
            i = int(np.argmax(ratio))
            ok = bool(ratio[i] <= 1.0)
            w = None
            if not ok:
                w = {"config": cname, "call": what, "event": i, "density": float(dk[i]), "density_plain_eager_default": float(r[i]),
                     "rel_diff": float(err[i] / max(abs(dk[i]), abs(r[i]), 1e-300)), "rtol_of_event": float(rt[i]), "measured_sensitivity_of_event": float(sn[i]),
                     "n_events_failing": int(np.sum(ratio > 1)), "n_events": len(r),
                     "p4": _event(sname, pp, i), "params_seed": ctx.seed + 52, "config_dict": cfg, "reference_config_dict": ref_cfg}
            acc.add("%s/%s" % (label, am), cl[am], ok, float(ratio[i]), w)


def _c05_jobs(pairs, tier, rotate=("tf+jit", "eager+lazy", "tf+noid+lazy")):
    jobs = []
    for k, pr in enumerate(pairs):
        if tier == "quick":
            names = ["eager", "tf", rotate[k % len(rotate)]]
        else:
            names = list(C05_VARIANTS)
        for v in names:
            jobs.append((pr, v, None))
    return jobs


# strategies that keep per-event quantities computed when the data object was BUILT ----------------------------------------------
# The statement quantifies over all parameter values; a data object is built once (cal_angle / load_data) and is then evaluated at
# many parameter points (every fit step), so "same density as plain eager evaluation" must hold on the SAME data object after the
# parameters have moved, for every choice of which line-shape parameters float (config grammar, config_loader.py
# add_particle_constraints: `float: m` mass only, `float: g` width only, `float: mg` both, absent: only couplings float).
# Only TRAINABLE parameters are moved after the data object exists: a strategy may fold a FIXED mass / width into its cache
# (that is what "fixed" means to it; the statement grants this explicitly for cached integrals).
C05_CACHED_PAIRS = [pr for pr in C05_PAIRS if pr != ("default", "default")]
# the pairs whose preprocessor stores tensors in the data object AND whose amplitude model reads them (only these can go stale when a
# parameter moves; the quick tier restricts the parameter-change obligations to them, the thorough tier takes all pairs)
C05_CACHED_CORE = [("cached_amp", "cached_amp"), ("cached_shape", "cached_shape"), ("cached_angle", "base_factor")]
# thorough tier: every pair whose amplitude model is not the default one (the default model reads none of the stored tensors and is the
# reference itself; its pairs with the cached preprocessors stay in the main obligations and in the charge-conjugation entries)
C05_PARAM_PAIRS = [pr for pr in C05_CACHED_PAIRS if pr[1] != "default"]
_F4P = {("A", "R_BCE", "D"): {"p_break": True}, ("A", "R_BCD", "E"): {"p_break": True}, ("A", "R_BC", "R_DE"): {"p_break": True}}


def _strat(pre, am):
    return am if pre == am else "%s+%s" % (pre, am)


def _c05_cmp(acc, name, clause, dk, r, fl, rt, sn, base_w, sname, pp, per_event=None):
    """one density array against the plain eager default one (per-event rtol rt, measured sensitivity sn, absolute floor fl), aggregated into
    obligation `name`; per_event: {key: per-event array} copied into the witness for the failing event"""
    if dk.shape != r.shape:
        acc.add(name, clause, False, np.inf, dict(base_w, shape=list(dk.shape), expected_shape=list(r.shape)))
        return
    tol = rt * np.maximum(np.abs(dk), np.abs(r)) + fl
    err = np.abs(dk - r)
    ratio = np.where(np.isfinite(err), err / tol, np.inf)
    i = int(np.argmax(ratio))
    ok = bool(ratio[i] <= 1.0)
    w = None
    if not ok:
        w = dict(base_w, event=i, density=float(dk[i]), density_plain_eager_default=float(r[i]),
                 rel_diff=float(err[i] / max(abs(dk[i]), abs(r[i]), 1e-300)), rtol_of_event=float(rt[i]), measured_sensitivity_of_event=float(sn[i]),
                 n_events_failing=int(np.sum(ratio > 1)), n_events=len(r),
                 p4=_event(sname, pp, i))
        for k, v in (per_event or {}).items():
            w[k] = float(v[i])
            w["n_events_failing_by_" + k] = {str(u): int(np.sum((ratio > 1) & (v == u))) for u in np.unique(v)}
    acc.add(name, clause, ok, float(ratio[i]), w)


def _used_res(sname, chains):
    out = []
    for ck in (list(M.STRUCTS[sname]["chains"]) if chains is None else chains):
        for r in _chain_res(sname, ck):
            if r not in out:
                out.append(r)
    return out


def _float_assignments(sname, chains, tier, k):
    """-> [(label, {resonance: "m" | "g" | "mg"})]: which line-shape parameters float.  quick: nothing floats; then each of m / g / mg
    on ONE resonance (rotating with k), all others fixed (so cached and live chains coexist); four-body structures skip mg in the quick
    tier (cost; m and g alone are the sharper cases).  thorough: each of m / g / mg on every single resonance and on all of them, plus
    the four cyclic assignments of (none, m, g, mg) over the resonances."""
    res = _used_res(sname, chains)
    out = [("none", {})]
    for j, X in enumerate(("m", "g", "mg")):
        if tier == "quick":
            if X == "mg" and not M.is_three_body(sname):
                continue
            out.append((X, {res[(k + j) % len(res)]: X}))
        else:
            out += [(X, {r: X}) for r in res] + [(X, {r: X for r in res})]
    if tier != "quick":
        modes = (None, "m", "g", "mg")
        for sh in range(4):
            out.append(("mixed", {r: modes[(i + sh) % 4] for i, r in enumerate(res) if modes[(i + sh) % 4]}))
    return out


def _c05_param_change(ctx, acc, label, sname, chains, assigns, pairs, variants, n_ev, xla, seed_off=0):
    """data object built at parameters P0, then evaluated (same object) at P0, at P1 (only the floating masses / widths moved; the
    couplings when no line-shape parameter floats), at P2 (every trainable parameter moved) and again at P0."""
    ps = M.phsp(ctx, sname, n_ev, ctx.seed + 150 + seed_off)
    base = _c05_base_rtol(sname, chains)
    for X, assign in assigns:
        ro = {r: {"float": v} for r, v in assign.items()} or None
        ref_cfg = M.build_config(sname, chains=chains, res_over=ro)
        config0, amp0 = _load(ctx, ref_cfg)
        # precondition of the catalogue entry (configuration grammar): exactly the requested masses / widths are trainable
        want = sorted(M.nm(sname, r) + suf for r, v in assign.items() for c, suf in (("m", "_mass"), ("g", "_width")) if c in v)
        shape_tr = sorted(n for n in M.trainable_names(amp0) if M.is_shape_name(n))
        if shape_tr != want:
            raise RuntimeError("catalogue entry %s float=%s: trainable line-shape parameters %s, expected %s" % (label, assign, shape_tr, want))
        # all parameter points are drawn BY NAME from the freshly built model (masses / widths relative to their nominal values)
        vals = [M.random_params(amp0, ctx.seed + 153 + j, shape=True) for j in range(3)]
        P0, _ = M.overlay_trainable(amp0, M.random_params(amp0, ctx.seed + 152, shape=False), vals[0], kinds=("shape",))
        P1, ch1 = M.overlay_trainable(amp0, P0, vals[1], kinds=("shape",) if shape_tr else ("coupling",))
        P2, ch2 = M.overlay_trainable(amp0, P0, vals[2])
        points = [("at the parameters current when the data object was built", P0),
                  ("same data object after set_params of %s" % (ch1 if shape_tr else "all trainable couplings",), P1),
                  ("same data object after set_params of all %d trainable parameters" % len(ch2), P2),
                  ("same data object, back at the first parameters", P0)]
        M.set_params(amp0, P0)
        data0 = M.cal_data(config0, sname, ps)
        # conditioning probes only where a compared strategy recomputes kinematic quantities from the momenta (p4_directly); the other
        # strategies consume the masses and angles computed by the same eager preprocessor code as the reference: base rtol
        kin = [pr for pr in pairs if _recomputes_kinematics(pr)]
        probes = [M.cal_data(config0, sname, M.ulp_perturbed(ps, j)) for j in range(C05_NPERT)] if kin else []
        ref, rtol, sens = [], [], []
        for _, P in points:
            M.set_params(amp0, P)
            ref.append(np.asarray(amp0(data0), dtype=float))
            rt, sn = _c05_rtol(ref[-1], [np.asarray(amp0(pd), dtype=float) for pd in probes], base)
            rtol.append(rt)
            sens.append(sn)
        rtol0 = [np.full_like(r, base) for r in ref]
        floor = [C01_AFLOOR * float(np.mean(r)) for r in ref]
        moved = float(np.max(np.abs(ref[1] - ref[0]) / np.maximum(np.abs(ref[0]), 1e-300)))
        acc.add("%s@float_%s/nonvacuous" % (label, X),
                "catalogue entry is sensitive: the plain default density reacts (> 1e-6 relative on some event) to the parameter change used by the "
                "after_param_change obligations of this entry", moved > 1e-6, 0.0,
                {"config_dict": ref_cfg, "changed": ch1, "max_rel_change_of_default_density": moved})
        for pre, am in pairs:
            name = "%s@float_%s/%s/after_param_change" % (label, X, _strat(pre, am))
            clause = ("preprocessor=%s amp_model=%s, floating line-shape parameters: %s per resonance: the data object is built once; the density evaluated on "
                      "that SAME object equals the plain eager default density at the parameters current when it was built, after the floating "
                      "masses / widths (or, if none floats, the couplings) were changed by name, after all trainable parameters were changed, and back at "
                      "the first point; %s" % (pre, am, X, (_C05_TOL_TEXT % base) if (pre, am) in kin else "rtol %g" % base))
            acc.declare(name, clause)
            for vname in variants:
                o = dict(C05_VARIANTS[vname])
                assert not o.get("lazy_call"), "lazy data are rebuilt on every call: nothing is kept across a parameter change"
                if o.get("jit_compile") and not xla:
                    ctx.count(key=(label, X, pre, am, vname, "skipped"), sample={"skipped": "XLA unavailable", "structure": label, "options": o})
                    continue
                o.update({"preprocessor": pre, "amp_model": am})
                cfg = M.build_config(sname, chains=chains, data=o, res_over=ro)
                cname = "%s float=%s pre=%s amp_model=%s %s" % (label, assign or None, pre, am, vname)
                ctx.count(key=cname, sample={"config": cname, "events": n_ev, "parameter_points": len(points)})
                base_w = {"config": cname, "config_dict": cfg, "reference_config_dict": ref_cfg, "params_seed": [ctx.seed + 152 + j for j in range(4)]}
                stage, d = "build", []
                try:
                    with _quiet():
                        config, amp = M.load(ctx, cfg)
                        M.set_params(amp, P0)
                        stage = "cal_angle"
                        data = M.cal_data(config, sname, ps)
                        for what, P in points:
                            stage = what
                            M.set_params(amp, P)
                            d.append(np.asarray(amp(data), dtype=float))
                except Exception as ex:  # noqa: BLE001  (a strategy that raises where plain default evaluation works does not return the default density)
                    acc.add(name, clause, False, np.inf, dict(base_w, call=stage, exception=_exc(ex)))
                    continue
                for (what, P), dk, r, fl, rt, sn in zip(points, d, ref, floor, rtol if (pre, am) in kin else rtol0, sens):
                    _c05_cmp(acc, name, clause, dk, r, fl, rt, sn, dict(base_w, call=what, params={k: float(v) for k, v in P.items()}), sname, ps)


# charge-conjugate events -----------------------------------------------------------------------------------------------------------
# A sample may mix both charges (data section: data_charge, consumed by SimpleData.load_data as the extra variable
# "charge_conjugation").  With cp_trans: True (default) the momenta of charge -1 events are parity transformed by the preprocessor;
# with cp_trans: False the helicity couplings are taken at the opposite helicities inside the amplitude.  Either way every strategy
# must return what plain default evaluation returns for the same events, charges and parameters.  The density only depends on the
# charge when parity violation is observable: parity-violating production vertex (p_break) AND either a decaying particle that
# populates only some helicities (`spins`) or a four-body final state (triple products); the entries below are chosen that way and
# the "nonvacuous" obligation checks it.
C05_CHARGE_ENTRIES = {
    "s110": ("s110", None, _P3, {"spins": [-1, 1]}),
    "s1hh": ("s1hh", None, _P3, {"spins": [-1, 1]}),
    "sh00": ("sh00", None, _P3, {"spins": [0.5]}),
    "f4": ("f4", ["cas", "cas2", "br"], _F4P, None),
}


def _c05_charge_conj(ctx, acc, entry, jobs, n_ev, xla, seed_off=0):
    """jobs: [((preprocessor, amp_model), variant name)]"""
    sname, chains, vertex, top_over = C05_CHARGE_ENTRIES[entry]
    label = "%s@charge_conj" % entry
    ps = M.phsp(ctx, sname, n_ev, ctx.seed + 170 + seed_off)
    charge = M.mixed_charges(n_ev, ctx.seed + 171 + seed_off)
    base = _c05_base_rtol(sname, chains)
    neg = charge < 0
    for cp in (True, False):
        sub = "%s/cp_trans_%s" % (label, "true" if cp else "false")
        ref_cfg = M.build_config(sname, chains=chains, vertex=vertex, top_over=top_over, data={"cp_trans": cp})
        config0, amp0 = _load(ctx, ref_cfg)
        params = M.random_params(amp0, ctx.seed + 172, shape=False)
        M.set_params(amp0, params)
        ref = np.asarray(amp0(M.cal_data_extra(config0, sname, ps, charge=charge)), dtype=float)
        ref_plus = np.asarray(amp0(M.cal_data_extra(config0, sname, ps, charge=np.ones(n_ev))), dtype=float)
        floor = C01_AFLOOR * float(np.mean(ref))
        rtol, msens = _c05_rtol(ref, [np.asarray(amp0(M.cal_data_extra(config0, sname, M.ulp_perturbed(ps, j), charge=charge)), dtype=float)
                                      for j in range(C05_NPERT)], base)
        sens = float(np.max(np.abs(ref[neg] - ref_plus[neg]) / np.maximum(np.abs(ref[neg]), 1e-300)))
        same_plus = bool(np.all(ref[~neg] == ref_plus[~neg]))
        acc.add("%s/nonvacuous" % sub,
                "catalogue entry is sensitive: the plain default density of the charge -1 events differs (> 1e-3 relative on some event) from the "
                "density of the same events given charge +1, and the charge +1 events are unaffected", sens > 1e-3 and same_plus, 0.0,
                {"config_dict": ref_cfg, "max_rel_change_of_default_density_on_negative_events": sens, "positive_events_unchanged": same_plus,
                 "charges": _f(charge)})
        for (pre, am), vnames in itertools.groupby(jobs, key=lambda j: j[0]):
            variants = [v for _, v in vnames]
            name = "%s/%s" % (sub, _strat(pre, am))
            clause = ("preprocessor=%s amp_model=%s, cp_trans: %s, parity-violating production vertex, events of both charges (charge_conjugation +1 / -1 "
                      "supplied as by data_charge): density == plain eager default density of the same events and charges, first and second call; "
                      "%s" % (pre, am, cp, _C05_TOL_TEXT % base))
            acc.declare(name, clause)
            for vname in variants:
                o = dict(C05_VARIANTS[vname])
                assert not o.get("lazy_call")
                if o.get("jit_compile") and not xla:
                    ctx.count(key=(sub, pre, am, vname, "skipped"), sample={"skipped": "XLA unavailable", "structure": sub, "options": o})
                    continue
                o.update({"preprocessor": pre, "amp_model": am, "cp_trans": cp})
                cfg = M.build_config(sname, chains=chains, vertex=vertex, top_over=top_over, data=o)
                cname = "%s pre=%s amp_model=%s %s" % (sub, pre, am, vname)
                ctx.count(key=cname, sample={"config": cname, "events": n_ev, "negative_events": int(np.sum(neg))})
                base_w = {"config": cname, "config_dict": cfg, "reference_config_dict": ref_cfg, "params_seed": ctx.seed + 172, "charges": _f(charge)}
                stage, d = "build", []
                try:
                    with _quiet():
                        config, amp = M.load(ctx, cfg)
                        M.set_params(amp, params)
                        stage = "cal_angle(p4, charge_conjugation=charges)"
                        data = M.cal_data_extra(config, sname, ps, charge=charge)
                        for stage in ("first call", "second call on the same data object"):
                            d.append((stage, np.asarray(amp(data), dtype=float)))
                except Exception as ex:  # noqa: BLE001
                    acc.add(name, clause, False, np.inf, dict(base_w, call=stage, exception=_exc(ex)))
                    continue
                for what, dk in d:
                    _c05_cmp(acc, name, clause, dk, ref, floor, rtol, msens, dict(base_w, call=what), sname, ps, per_event={"charge": charge})


_C05_EXTRA_BOUND = ("Parameter change on ONE data object: %s; floating line-shape parameters none / m / g / mg (4-body: none / m / g) on one resonance rotating (quick) or on every "
                    "single resonance, on all, and 4 cyclic mixed assignments (thorough); pairs cached_amp, cached_shape, cached_angle+base_factor eager (quick) "
                    "or the 5 pairs with a non-default amplitude model eager + the 3 cached pairs with use_tf_function on the quick assignments (thorough); 4 parameter points (as built, floating shapes moved, all "
                    "trainable moved, back); 16 / 128 events.  Charge conjugation: %s, production vertices p_break, seeded charges +-1, cp_trans in "
                    "{True, False}, the 5 pairs with a non-default amplitude model eager (thorough: + the default model behind the cached preprocessors, + use_tf_function for the 4 pairs "
                    "with a cached / p4 preprocessor and non-default model), two calls; 16 / 128 events.  Tolerance: rtol per event max(1e-9, 50 x measured "
                    "sensitivity of the default density to a 4e-16 perturbation of the momenta) <= 1e-6 wherever p4_directly is among the compared strategies, else "
                    "1e-9 (base 1e-6 for the 4-body shared-vertex configuration, see C01); + absolute floor 1e-10 x mean density")


def _c05_extra(ctx, acc, xla, float_structs, charge_entries):
    """parameter-change and charge-conjugation obligations of a group; float_structs: [(structure, rotation index)]"""
    quick = ctx.tier == "quick"
    n_ev = 16 if quick else 128
    for sname, k in float_structs:
        _c05_param_change(ctx, acc, sname, sname, None, _float_assignments(sname, None, ctx.tier, k), C05_CACHED_CORE if quick else C05_PARAM_PAIRS,
                          ("eager",), n_ev, xla, seed_off=10 * k)
        if not quick:
            # compiled path (traced at the first parameter point, re-used after the change): the cached pairs on the quick tier's assignments
            _c05_param_change(ctx, acc, sname, sname, None, _float_assignments(sname, None, "quick", k), C05_CACHED_CORE, ("tf",), n_ev, xla, seed_off=10 * k)
    # quick: the pairs with a non-default amplitude model; thorough: also the default model behind the cached preprocessors, and compiled paths
    jobs = [(pr, "eager") for pr in (C05_PARAM_PAIRS if quick else C05_CACHED_PAIRS)]
    if not quick:
        jobs += [(pr, "tf") for pr in C05_PARAM_PAIRS if pr[0] != "default"]
    jobs.sort(key=lambda j: C05_CACHED_PAIRS.index(j[0]))
    for k, entry in enumerate(charge_entries):
        _c05_charge_conj(ctx, acc, entry, jobs, n_ev, xla, seed_off=10 * (k + 1))


_C05_FUNCS = ["amp.amp:AbsPDF.__call__", "amp.amp:CachedAmpAmplitudeModel.pdf", "amp.amp:CachedShapeAmplitudeModel.pdf", "amp.amp:FactorAmplitudeModel.pdf",
              "amp.amp:P4DirectlyAmplitudeModel.pdf", "amp.preprocess:CachedAmpPreProcessor.build_cached", "amp.preprocess:CachedShapePreProcessor.build_cached",
              "amp.preprocess:CachedAnglePreProcessor.build_cached", "experimental.wrap_function:WrapFun.__call__", "config_loader.data:SimpleData.cal_angle"]


@group(["C05"], "iface.C05/strategies_toy", _C05_FUNCS, env="tf", kind="B",
       bound="structure (1;1,1,0) three chains; 8 compatible (preprocessor, amp_model) pairs x {eager, use_tf_function, one of jit_compile / lazy_call / "
             "no_id_cached+lazy_call} (quick) or x all 9 variants (thorough); cached_amp with no_p4+no_angle; each model called twice on one data object "
             "and twice on a second one; 32 (quick) / 512 (thorough) seeded events; XLA variants skipped (recorded) when XLA is unavailable.  "
             + _C05_EXTRA_BOUND % ("(1;1,1,0)", "(1;1,1,0) with A populating helicities +-1 only"),
       assumes=["A-LIB: tf.function tracing and XLA compilation are trusted only through this bounded comparison",
                "only trainable parameters change after a data object was built (a strategy may fold fixed masses / widths into its cache)"])
def c05_toy(ctx):
    n_ev = 32 if ctx.tier == "quick" else 512
    xla = _xla_available(ctx)
    ctx.count(key=("xla", xla), sample={"xla_available": xla})
    acc = Acc(ctx)
    jobs = _c05_jobs(C05_PAIRS, ctx.tier)
    jobs.append((("cached_amp", "cached_amp"), "tf", {"no_p4": True, "no_angle": True}))
    _c05_density_jobs(ctx, acc, "s110", "s110", None, jobs, n_ev, xla)
    _c05_extra(ctx, acc, xla, [("s110", 0)], ["s110"])
    acc.flush()


@group(["C05"], "iface.C05/strategies_catalogue", _C05_FUNCS, env="tf", kind="B",
       bound="structures (1/2;1/2,0,0), (1;1,1/2,1/2), 4-body (4 chains), (1;1,0,0) and (0;0,1/2,1/2) with declared identical particles; 8 compatible "
             "(preprocessor, amp_model) pairs eager, use_tf_function for 2/1/1/1/0 rotating pairs (quick) / all variants (thorough); 24 (quick) / 256 (thorough) events.  "
             + _C05_EXTRA_BOUND % ("(1/2;1/2,0,0), 4-body (thorough: + (1;1,1/2,1/2))",
                                   "(1;1,1/2,1/2) with A helicities +-1 only (thorough: + (1/2;1/2,0,0) with A helicity +1/2 only, + 4-body, three chains)"),
       assumes=["only trainable parameters change after a data object was built (a strategy may fold fixed masses / widths into its cache)"])
def c05_catalogue(ctx):
    n_ev = 24 if ctx.tier == "quick" else 256
    xla = _xla_available(ctx)
    acc = Acc(ctx)
    for k, (label, sname) in enumerate([("sh00", "sh00"), ("s1hh", "s1hh"), ("f4", "f4"), ("sid0@identical", "sid0"), ("sidh@identical", "sidh")]):
        if ctx.tier == "quick":
            jobs = [(pr, "eager", None) for pr in C05_PAIRS]
            # compiled path for a rotating choice of pairs (tracing dominates the cost): 2 pairs for the first structure, 1 for the others, none for the last
            tfp = [C05_PAIRS[(k + j) % len(C05_PAIRS)] for j in ((1, 3) if k == 0 else (1,) if k < 4 else ())]
            jobs += [(pr, "tf", None) for pr in tfp]
        else:
            jobs = _c05_jobs(C05_PAIRS, ctx.tier)
        _c05_density_jobs(ctx, acc, label, sname, None, jobs, n_ev, xla, seed_off=10 * k)
    _c05_extra(ctx, acc, xla, [("sh00", 1), ("f4", 2)] + ([] if ctx.tier == "quick" else [("s1hh", 3)]),
               ["s1hh"] + ([] if ctx.tier == "quick" else ["sh00", "f4"]))
    acc.flush()


# chain / resonance selection under every strategy (C03 and C05 together) ------------------------------------------------------------
# C03: "selecting a subset of chains / resonances yields exactly the corresponding partial sum" and C05: "every evaluation strategy returns
# the same density as plain eager default evaluation" are both quantified over the model the user evaluates - and fit fractions, partial
# wave plots (amp.partial_weight, temp_used_res, set_used_res, set_used_chains) evaluate SUB-models.  A cached / factorised strategy
# keeps one tensor per chain and has to pair it with that chain's couplings and line shape; which chain a tensor belongs to can be
# encoded as position in the full chain list, position in the current selection or position inside a topology group.  The structure
# s110x makes the three differ (declaration order (BC)D, (BD)C, (BC)D, (CD)B; same number of LS couplings in every chain, so a wrong
# pairing has matching shapes), and the group runs EVERY non-empty selection through the public selection API under every compatible
# (preprocessor, amp_model) pair.  References, both from the plain eager default model on the same events and parameters:
#   (i)  its density under the same selection (C05 clause);
#   (ii) sum over helicities of |sum_{k in S} A_k|^2 with A_k = get_amp3 with only chain k selected (C03 clause).
# Tolerance: that of the C05 density obligations (rtol 1e-9, per-event measured conditioning where p4_directly is compared, absolute floor
# 1e-10 x mean density of the selection): same products, other association order.
C0305_SEL_FLOAT = {"R_BD": {"float": "m"}, "R_BC2": {"float": "g"}, "R_CD": {"float": "mg"}}
# (label, structure, floating line shapes, pairs in the quick tier, pairs in the thorough tier).  The second entry lets three of the four
# line shapes float, so that cached_shape keeps chain 0 folded and evaluates chains 1..3 live (its two code paths under one selection).
C0305_SEL_ENTRIES = [
    ("s110x", "s110x", None, C05_PAIRS, C05_PAIRS),
    ("s110x@float", "s110x", C0305_SEL_FLOAT, [("cached_shape", "cached_shape")], C05_PARAM_PAIRS),
]
C0305_COMBINE = [[0, 2], [1, 2], [1, 3], [2, 1, 0], [1, 2, 3], [0, 1, 2, 3]]
# Compiled evaluation with data: {use_tf_function: True, no_id_cached: True} (the options of the lazy-batch configurations): the wrapped
# tf.function is used from the FIRST call on, whatever data object is passed, and a concrete function bakes in the chain selection that
# was active when it was traced.  The entry traces it with all chains selected (first call), then evaluates every sub-selection, then the
# full model again: each must be the plain eager default density of THAT selection (C05), i.e. the partial sum of the selected chains (C03).
# (label, structure, floating line shapes, pairs in the quick tier, pairs in the thorough tier)
C0305_SEL_COMPILED = [
    ("s110x@tf+noid", "s110x", None, [("default", "default"), ("cached_amp", "cached_amp")], C05_PAIRS),
]
_C0305_COMPILED_NOTE = ("data: {use_tf_function: True, no_id_cached: True}, the compiled function traced by a first call with ALL chains selected before any "
                        "selection is made (a trace of one selection must not answer for another selection); ")


def _c0305_selection(ctx, acc, label, sname, res_over, pairs, variants, n_ev, xla, short_for=None, note=""):
    """short_for: pairs that run the short selection list only (None: every pair runs every selection); note: prefix of the clauses (options
    common to all variants of this entry)"""
    keys = list(M.STRUCTS[sname]["chains"])
    n = len(keys)
    full = list(range(n))
    base = _c05_base_rtol(sname, None)
    ref_cfg = M.build_config(sname, chains=keys, res_over=res_over)
    config0, amp0 = _load(ctx, ref_cfg)
    dg0 = amp0.decay_group
    names = M.chain_names(amp0)
    # catalogue chain -> library chain index, through the resonance content
    idx_of = {}
    for ck in keys:
        want = sorted(M.nm(sname, r) for r in _chain_res(sname, ck))
        hit = [i for i, c in enumerate(dg0.chains) if sorted(str(r) for r in c.inner) == want]
        assert len(hit) == 1, (ck, want, names)
        idx_of[ck] = hit[0]
    res_of = {idx_of[ck]: _chain_res(sname, ck) for ck in keys}
    assert all(len(v) == 1 for v in res_of.values()), res_of
    all_res = [res_of[i][0] for i in full]
    topo = [M.STRUCTS[sname]["topology"][ck] for ck in sorted(keys, key=lambda c: idx_of[c])]
    # parameters BY NAME: seeded couplings; floating masses / widths moved off their nominal values
    params, _ = M.overlay_trainable(amp0, M.random_params(amp0, ctx.seed + 252, shape=False), M.random_params(amp0, ctx.seed + 253, shape=True), kinds=("shape",))
    M.set_params(amp0, params)
    ps = M.phsp(ctx, sname, n_ev, ctx.seed + 250)
    data0 = M.cal_data(config0, sname, ps)
    kin = [pr for pr in pairs if _recomputes_kinematics(pr)]
    probes = [M.cal_data(config0, sname, M.ulp_perturbed(ps, j)) for j in range(C05_NPERT)] if kin else []
    single = {}
    for i in full:
        dg0.set_used_chains([i])
        single[i] = _amp3(amp0, data0)
    hel = tuple(range(1, single[0].ndim))
    ref_sel, ref_sum, rtol, sens, floor = {}, {}, {}, {}, {}
    for S in M.subsets(full):
        fs = frozenset(S)
        dg0.set_used_chains(list(S))
        ref_sel[fs] = np.asarray(amp0(data0), dtype=float)
        ref_sum[fs] = np.sum(np.abs(sum(single[i] for i in S)) ** 2, axis=hel)
        rtol[fs], sens[fs] = _c05_rtol(ref_sel[fs], [np.asarray(amp0(pd), dtype=float) for pd in probes], base)
        floor[fs] = C01_AFLOOR * float(np.mean(ref_sum[fs]))
    dg0.set_used_chains(full)
    ffull = frozenset(full)
    # the entry must be able to show a wrong pairing: topologies interleave in the library's chain order, every chain has the same number of
    # coupling products, and exchanging any two chains' densities is visible (single-chain densities differ pairwise by > 1e-3 somewhere)
    interleaved = any(topo[i] == topo[k] and any(topo[j] != topo[i] for j in range(i + 1, k)) for i in full for k in range(i + 2, n))
    n_coup = [int(np.prod([len(dec.get_ls_list()) for dec in c])) for c in dg0.chains]
    dsingle = [ref_sel[frozenset([i])] for i in full]
    distinct = min(float(np.max(np.abs(dsingle[i] - dsingle[j]) / np.maximum(dsingle[i], dsingle[j]))) for i in full for j in range(i + 1, n))
    acc.add("%s/nonvacuous" % label,
            "catalogue entry is sensitive: in the library's chain order two chains of one topology are separated by a chain of another topology, all "
            "chains have the same number of LS-coupling products, and the single-chain default densities differ pairwise (> 1e-3 relative on some event)",
            interleaved and len(set(n_coup)) == 1 and distinct > 1e-3, 0.0,
            {"library_chain_order": names, "topologies": topo, "coupling_products_per_chain": n_coup, "min_pairwise_max_rel_diff_of_single_chain_densities": distinct,
             "config_dict": ref_cfg})

    # the selections, each through the public API: (description, how, argument, expected chain set, in the short list)
    # short list (quick tier, strategies that keep no per-chain tensors, see c0305_selection): every subset once through set_used_chains,
    # single resonances through temp_used_res, partial_weight with its default combinations
    actions = []
    for S in M.subsets(full):
        actions.append(("set_used_chains(%s)" % (list(S),), "chains", list(S), frozenset(S), True))
        if len(S) > 1:
            actions.append(("set_used_chains(%s)" % (list(S)[::-1],), "chains", list(S)[::-1], frozenset(S), False))
    for R in M.subsets(all_res):
        rn = [M.nm(sname, r) for r in R]
        want = frozenset(i for i in full if res_of[i][0] in R)
        actions.append(("set_used_res(%s)" % (rn,), "res", rn, want, False))
        actions.append(("with temp_used_res(%s)" % (rn,), "temp_res", rn, want, len(R) == 1))
    actions.append(("partial_weight(data)", "pw", None, [frozenset([i]) for i in full], True))
    actions.append(("partial_weight(data, combine=%s)" % (C0305_COMBINE,), "pw", C0305_COMBINE, [frozenset(c) for c in C0305_COMBINE], False))

    for pre, am in pairs:
        st = _strat(pre, am)
        tol_text = (_C05_TOL_TEXT % base) if (pre, am) in kin else "rtol %g" % base
        head = note + "preprocessor=%s amp_model=%s, chains declared in the order %s: " % (pre, am, " ".join(topo))
        cl = {
            "selection_equals_default": head + "with all chains selected (first call) and for every non-empty subset S of the chains selected through set_used_chains (both orders), "
                                        "set_used_res, temp_used_res or partial_weight, the density returned by the model == the plain eager default density under the same selection; " + tol_text,
            "selection_equals_partial_sum": head + "for every such selection the density == sum over helicities |sum_{k in S} A_k|^2, A_k the default model's get_amp3 with "
                                            "only chain k selected (exactly the partial sum of the selected chains, nothing of a deselected one); " + tol_text,
            "full_restored": head + "after temp_used_res exits, after partial_weight returns and after set_used_chains(all chains, in increasing or decreasing order) the density is the full "
                             "default density again (also on the following call, the compiled path under use_tf_function); " + tol_text,
        }
        ob = {k: "%s/%s/%s" % (label, st, k) for k in cl}
        for k in cl:
            acc.declare(ob[k], cl[k])
        for vname in variants:
            o = dict(C05_VARIANTS[vname])
            assert not o.get("lazy_call")
            if o.get("jit_compile") and not xla:
                ctx.count(key=(label, pre, am, vname, "skipped"), sample={"skipped": "XLA unavailable", "structure": label, "options": o})
                continue
            o.update({"preprocessor": pre, "amp_model": am})
            cfg = M.build_config(sname, chains=keys, data=o, res_over=res_over)
            cname = "%s pre=%s amp_model=%s %s" % (label, pre, am, vname)
            short = short_for is not None and (pre, am) in short_for
            ctx.count(key=cname, sample={"config": cname, "events": n_ev, "selections": sum(1 for a_ in actions if a_[4] or not short)})
            base_w = {"config": cname, "config_dict": cfg, "reference_config_dict": ref_cfg, "params_seed": [ctx.seed + 252, ctx.seed + 253],
                      "library_chain_order": names, "topologies": topo}
            try:
                with _quiet():
                    config, amp = M.load(ctx, cfg)
                    M.set_params(amp, params)
                    data = M.cal_data(config, sname, ps)
                if M.chain_names(amp) != names:
                    raise RuntimeError("chain order %s differs from the reference model's %s" % (M.chain_names(amp), names))
            except Exception as ex:  # noqa: BLE001  (a strategy that cannot be built where the default one can does not return the default density)
                for k in cl:
                    acc.add(ob[k], cl[k], False, np.inf, dict(base_w, call="build / cal_angle", exception=_exc(ex)))
                continue
            rts = rtol if (pre, am) in kin else {fs: np.full_like(r, base) for fs, r in ref_sel.items()}

            def full_check(what, calls=1):
                for c in range(calls):
                    w = dict(base_w, call="%s%s" % (what, "" if c == 0 else " (following call)"), selected_chains=full)
                    try:
                        with _quiet():
                            d = np.asarray(amp(data), dtype=float)
                    except Exception as ex:  # noqa: BLE001
                        acc.add(ob["full_restored"], cl["full_restored"], False, np.inf, dict(w, exception=_exc(ex)))
                        continue
                    _c05_cmp(acc, ob["full_restored"], cl["full_restored"], d, ref_sel[ffull], floor[ffull], rts[ffull], sens[ffull], w, sname, ps)

            def sel_check(what, fs, d):
                w = dict(base_w, call=what, selected_chains=sorted(fs), selected_chain_names=[names[i] for i in sorted(fs)])
                _c05_cmp(acc, ob["selection_equals_default"], cl["selection_equals_default"], d, ref_sel[fs], floor[fs], rts[fs], sens[fs],
                         dict(w, compared_with="plain eager default density under the same selection"), sname, ps)
                _c05_cmp(acc, ob["selection_equals_partial_sum"], cl["selection_equals_partial_sum"], d, ref_sum[fs], floor[fs], rts[fs], sens[fs],
                         dict(w, compared_with="sum_helicities |sum of the default model's single-chain get_amp3|^2"), sname, ps)

            try:
                with _quiet():
                    d = np.asarray(amp(data), dtype=float)
                sel_check("first call, all chains selected", ffull, d)
            except Exception as ex:  # noqa: BLE001
                for k in ("selection_equals_default", "selection_equals_partial_sum"):
                    acc.add(ob[k], cl[k], False, np.inf, dict(base_w, call="first call, all chains selected", exception=_exc(ex)))
            for what, how, arg, want, in_short in actions:
                if short and not in_short:
                    continue
                got = []
                try:
                    with _quiet():
                        if how == "chains":
                            amp.set_used_chains(list(arg))
                            got.append((what, want, np.asarray(amp(data), dtype=float)))
                        elif how == "res":
                            amp.set_used_res(list(arg))
                            got.append((what, want, np.asarray(amp(data), dtype=float)))
                        elif how == "temp_res":
                            with amp.temp_used_res(list(arg)):
                                got.append((what, want, np.asarray(amp(data), dtype=float)))
                        else:
                            ws = amp.partial_weight(data) if arg is None else amp.partial_weight(data, combine=[list(c) for c in arg])
                            if len(ws) != len(want):
                                raise RuntimeError("partial_weight returned %d weights for %d combinations" % (len(ws), len(want)))
                            for j, (wj, fs) in enumerate(zip(ws, want)):
                                got.append(("%s[%d]" % (what, j), fs, np.asarray(wj, dtype=float)))
                except Exception as ex:  # noqa: BLE001  (a selection the default model evaluates must be evaluated by every strategy)
                    for k in ("selection_equals_default", "selection_equals_partial_sum"):
                        acc.add(ob[k], cl[k], False, np.inf, dict(base_w, call=what, exception=_exc(ex)))
                    amp.set_used_chains(full)
                    continue
                for w_, fs, d in got:
                    sel_check(w_, fs, d)
                if how == "temp_res":
                    # the density after the block: for the single resonances and the last subset (the state itself is C17's subject)
                    if len(arg) == 1 or len(arg) == n:
                        full_check("after " + what + " exited")
                    else:
                        ok = list(amp.decay_group.chains_idx) == full
                        acc.add(ob["full_restored"], cl["full_restored"], ok, 0.0,
                                None if ok else dict(base_w, call="after " + what + " exited", chains_idx=[int(i) for i in amp.decay_group.chains_idx]))
                elif how == "pw":
                    full_check("after " + what + " returned")
                elif how == "res":
                    amp.set_used_chains(full)
                elif len(arg) == n:
                    full_check("after set_used_chains(%s)" % (list(arg),), calls=2)
            amp.set_used_chains(full)
            full_check("after all selections, set_used_chains(%s)" % (full,), calls=2)


@group(["C03", "C05"], "iface.C05/selection_interleaved",
       _C05_FUNCS + ["amp.core:DecayGroup.get_m_dep", "amp.core:DecayGroup.get_factor_angle_amp", "experimental.build_amp:build_params_vector",
                     "amp.amp:BaseAmplitudeModel.partial_weight", "amp.core:DecayGroup.partial_weight", "amp.core:DecayGroup.set_used_chains",
                     "amp.core:DecayGroup.set_used_res", "amp.core:DecayGroup.temp_used_res"], env="tf", kind="B",
       bound="structure (1;1,1,0) with four chains declared in the interleaved topology order (BC)D, (BD)C, (BC)D, (CD)B, 6 LS-coupling products each, no identical "
             "particles; the 8 compatible (preprocessor, amp_model) pairs with fixed line shapes + cached_shape (thorough: the 5 pairs with a non-default amplitude "
             "model) with 3 of 4 line shapes floating; eager (thorough: + use_tf_function); every non-empty subset of the chains through set_used_chains in increasing "
             "and decreasing order (26), every non-empty subset of the resonances through set_used_res and temp_used_res (15 + 15), partial_weight with the default and "
             "6 explicit combinations (quick: the pairs other than cached_amp, cached_shape, cached_angle+base_factor run the 15 increasing set_used_chains subsets, temp_used_res of the 4 single "
             "resonances and the default partial_weight only); the same structure with use_tf_function + no_id_cached, function traced with all chains before the "
             "selections (quick: default and cached_amp on the short selection list; thorough: the 8 pairs, every selection); 24 (quick) / 64 (thorough) seeded phase-space events; one seeded parameter point; tolerance of the C05 density obligations "
             "(rtol 1e-9, measured conditioning <= 1e-6 for p4_directly, floor 1e-10 x mean)",
       assumes=["selections are made after the data object was built (what fit fractions and partial-wave plots do)"])
def c0305_selection(ctx):
    quick = ctx.tier == "quick"
    n_ev = 24 if quick else 64
    xla = False  # no jit_compile variant here (a model with deselected chains is always evaluated eagerly: AbsPDF.__call__ / cached_available)
    acc = Acc(ctx)
    for label, sname, res_over, pq, pt in C0305_SEL_ENTRIES:
        # quick: the pairs whose preprocessor stores per-chain tensors and whose amplitude model reads them (C05_CACHED_CORE: cached_amp, cached_shape,
        # cached_angle+base_factor) run every selection; the other pairs run the short list (every subset through set_used_chains, temp_used_res
        # of single resonances, default partial_weight).  thorough: every pair runs every selection.
        short_for = [pr for pr in C05_PAIRS if pr not in C05_CACHED_CORE] if quick else None
        _c0305_selection(ctx, acc, label, sname, res_over, pq if quick else pt, ("eager",) if quick else ("eager", "tf"), n_ev, xla, short_for=short_for)
    for label, sname, res_over, pq, pt in C0305_SEL_COMPILED:
        # quick: default and cached_amp, both on the short list (the subject is which selection the compiled function answers for, not the pairing of
        # per-chain tensors); thorough: every pair, every selection
        _c0305_selection(ctx, acc, label, sname, res_over, pq if quick else pt, ("tf+noid",), n_ev, xla, short_for=list(pq) if quick else None,
                         note=_C0305_COMPILED_NOTE)
    acc.flush()


# likelihood models ---------------------------------------------------------------------------------


def _nll_grad(fcn):
    nll, g = fcn.get_nll_grad({})
    return float(nll), np.array([float(x) for x in g]), list(fcn.vm.trainable_vars)


@group(["C05"], "iface.C05/likelihood_models",
       ["model.opt_int:ModelCachedInt.nll_grad_batch", "model.opt_int:ModelCachedInt.build_cached_int", "model.opt_int:ModelCachedAmp.nll_grad_batch",
        "experimental.build_amp:build_amp2s", "experimental.build_amp:build_angle_amp_matrix", "experimental.opt_int:build_int_matrix",
        "config_loader.config_loader:ConfigLoader.get_fcn", "model.model:FCN.get_nll_grad"], env="tf", kind="B",
       bound="structures (1;1,1,0), (1/2;1/2,0,0) with fixed line shapes: data options {cached_int: True}, {cached_amp: True} (+ model: cached_int / cached_amp in "
             "thorough) vs default; (1;1,1,0) with floating mass and width of one resonance: cached_amp vs default; (1;1,0,0) with identical pair; "
             "(thorough: + width only / mass only floating); FCN.get_nll_grad evaluated twice, at a second parameter point (couplings and floating masses / widths "
             "moved), and through a second FCN on other data with the SAME model object; "
             "24 data + 60 phase-space events (quick) / 200 + 1000 (thorough); NLL 1e-8 relative, gradient 1e-8 of the largest component",
       assumes=["cached_int is claimed only with fixed line-shape parameters (statement)"])
def c05_nll(ctx):
    n_d, n_mc = (24, 60) if ctx.tier == "quick" else (200, 1000)
    acc = Acc(ctx)
    FCN = ctx.mod("model").FCN
    cases = [("s110", "s110", None, ["cached_int", "cached_amp"]), ("sh00", "sh00", None, ["cached_int", "cached_amp"]),
             ("s110@float_mass_width", "s110", {"R_BD": {"float": "mg"}}, ["cached_amp"]), ("sid0@identical", "sid0", None, ["cached_int", "cached_amp"])]
    if ctx.tier != "quick":
        cases += [("s110@float_width", "s110", {"R_BD": {"float": "g"}}, ["cached_amp"]), ("s110@float_mass", "s110", {"R_BC": {"float": "m"}}, ["cached_amp"])]
    for k, (label, sname, res_over, kinds) in enumerate(cases):
        opts = []
        for kind in kinds:
            opts.append((kind, {kind: True}))
            if ctx.tier != "quick":
                opts.append((kind, {"model": kind}))
        cl = {kind: "likelihood model %s: NLL (1e-8) and gradient (1e-8 of max component) from FCN.get_nll_grad equal the default model's, on repeated calls, "
                    "after a parameter change and on a second data set with the same model object" % kind for kind in kinds}
        for kind in kinds:
            acc.declare("%s/%s" % (label, kind), cl[kind])
        ps, pm = M.phsp(ctx, sname, n_d, ctx.seed + 60 + k), M.phsp(ctx, sname, n_mc, ctx.seed + 70 + k)
        ps2, pm2 = M.phsp(ctx, sname, n_d + 5, ctx.seed + 80 + k), M.phsp(ctx, sname, n_mc + 7, ctx.seed + 90 + k)

        def run(o):
            cfg = M.build_config(sname, data=o, res_over=res_over)
            out = []
            with _quiet():
                config, amp = M.load(ctx, cfg)
                pa = M.random_params(amp, ctx.seed + 61, shape=False)
                # second point: couplings AND the floating (trainable) masses / widths move; fixed line shapes stay (cached_int needs them fixed)
                pb, _ = M.overlay_trainable(amp, M.random_params(amp, ctx.seed + 62, shape=False), M.random_params(amp, ctx.seed + 62, shape=True), kinds=("shape",))
                M.set_params(amp, pa)
                data, mc = M.cal_data(config, sname, ps), M.cal_data(config, sname, pm)
                fcn = config.get_fcn(all_data=([data], [mc], None, None))
                out.append(("first call",) + _nll_grad(fcn))
                out.append(("second call",) + _nll_grad(fcn))
                M.set_params(amp, pb)
                out.append(("after parameter change",) + _nll_grad(fcn))
                M.set_params(amp, pa)
                out.append(("back at the first parameter point",) + _nll_grad(fcn))
                # a small overall coupling convention: densities around and below 1e-6, where the likelihood's log is continued (clip_log)
                # (added after seeded change C05-cached_int_plain_log: at O(1) couplings every strategy is on the plain-log branch)
                sc = float(np.sqrt(1e-6 / np.median(np.asarray(amp(data)))))  # the median density lands on the threshold
                pc = {k_: (v_ * sc if k_.endswith("_total_0r") else v_) for k_, v_ in pa.items()}
                M.set_params(amp, pc)
                dens = np.asarray(amp(data))
                out.append(("chain couplings scaled by %.3g (densities %.1e .. %.1e, library log continued below 1e-6)" % (sc, float(dens.min()), float(dens.max())),) + _nll_grad(fcn))
                tiny.append((float(dens.min()), float(dens.max())))
                M.set_params(amp, pa)
                data2, mc2 = M.cal_data(config, sname, ps2), M.cal_data(config, sname, pm2)
                fcn2 = FCN(fcn.model, data2, mc2, batch=65000)
                out.append(("second data set, same model object",) + _nll_grad(fcn2))
                out.append(("second data set, second call",) + _nll_grad(fcn2))
                out.append(("first data set again",) + _nll_grad(fcn))
            return cfg, type(fcn.model).__name__, out

        tiny = []
        ref_cfg, ref_cls, ref = run({})
        assert ref_cls == "Model", ref_cls
        assert tiny and tiny[0][0] < 1e-6 < tiny[0][1], ("harness: the scaled point does not reach the continued-log region", tiny)
        for kind, o in opts:
            try:
                cfg, cls, got = run(o)
            except Exception as ex:  # noqa: BLE001  (a likelihood model that raises where the default one works does not "give the same NLL")
                acc.add("%s/%s" % (label, kind), cl[kind], False, np.inf,
                        {"config": "%s data=%s" % (label, o), "exception": _exc(ex),
                         "config_dict": M.build_config(sname, data=o, res_over=res_over), "reference_config_dict": ref_cfg})
                continue
            cname = "%s data=%s (%s)" % (label, o, cls)
            ctx.count(key=cname, sample={"config": cname, "model_class": cls})
            okc = cls == {"cached_int": "ModelCachedInt", "cached_amp": "ModelCachedAmp"}[kind]
            acc.add("%s/%s" % (label, kind), cl[kind], okc, 0.0, None if okc else {"config": cname, "model_class": cls, "config_dict": cfg})
            for (what, nll, g, names), (_, nll0, g0, names0) in zip(got, ref):
                n_scale = max(1.0, abs(nll0), float(n_d))
                g_scale = max(float(np.max(np.abs(g0))), 1e-300)
                ok = (names == names0 and np.isfinite(nll) and np.all(np.isfinite(g)) and abs(nll - nll0) <= 1e-8 * n_scale
                      and float(np.max(np.abs(g - g0))) <= 1e-8 * g_scale)
                w = None
                if not ok:
                    j = int(np.argmax(np.abs(g - g0))) if names == names0 else -1
                    w = {"config": cname, "call": what, "nll": nll, "nll_default": nll0, "max_grad_diff": float(np.max(np.abs(g - g0))) if names == names0 else None,
                         "grad_component": names[j] if j >= 0 else None, "grad": float(g[j]) if j >= 0 else None, "grad_default": float(g0[j]) if j >= 0 else None,
                         "trainable": names, "n_data": n_d, "n_mc": n_mc, "params_seed": [ctx.seed + 61, ctx.seed + 62], "config_dict": cfg,
                         "reference_config_dict": ref_cfg}
                acc.add("%s/%s" % (label, kind), cl[kind], ok, 0.0, w)
    acc.flush()

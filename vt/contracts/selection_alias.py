"""C17 (and the selection half of C05): the chain selection of a DecayGroup is saved and restored BY VALUE.

Added after the seeded change C17-set_used_chains_early_return_alias was missed: every save/restore helper of amp/core.py snapshots
the selection by alias (`old = self.chains_idx`); that is sound only while `set_used_chains` installs a fresh list and
`add_used_chains` never touches a list somebody else holds.  The frame contracts of frames_c17 reason about WHICH restore call
runs on which exit, not about the heap; this group closes that gap by running the real methods (no amplitude is evaluated:
`sum_amp` is replaced by a recorder in the shadow module) over an enumerated space and comparing the selection with a copy taken
by value before the call.

Space: structures s110 (3 chains, one resonance each) and f4 (cascade); every baseline selection (every subset of chains,
including the empty and the full one, in ascending order, plus one permuted order); every argument list of length <= 2 over
resonance names and chain indices (names only, indices only, MIXED, repeated); exit normal / exception raised in the body or at
the n-th call of sum_amp.  Bounded (kind B): the number of chains is not."""
import copy
import itertools

import numpy as np

from vt.core.oblig import group
from vt.iface import models as M

STRUCTS = ["s110", "f4"]


class _Fault(Exception):
    pass


def _build(ctx, sname):
    import numpy

    if not hasattr(numpy, "Inf"):
        numpy.Inf = numpy.inf
    CL = ctx.mod("config_loader").ConfigLoader
    config = CL(copy.deepcopy(M.build_config(sname)))
    return config.get_amplitude()


def _mk(sname):
    def g(ctx):
        amp = _build(ctx, sname)
        dg = amp.decay_group
        n = len(dg.chains)
        res = [str(r) for r in dg.resonances]
        chains_of = {r: [k for k, c in enumerate(dg.chains) if any(str(p) == r for p in c.inner)] for r in res}
        atoms = list(res) + list(range(n))
        args = [[]] + [[a] for a in atoms] + [[a, b] for a in atoms for b in atoms]
        if len(args) > 60:  # keep every mixed name/int pair, thin the rest deterministically
            keep = [a for a in args if len(a) == 2 and isinstance(a[0], str) != isinstance(a[1], str)]
            rest = [a for a in args if a not in keep]
            args = keep + rest[:: max(1, len(rest) // 30)]
        baselines = [list(S) for r in range(0, n + 1) for S in itertools.combinations(range(n), r)]
        baselines.append(list(range(n))[::-1])
        if n > 3:
            baselines = baselines[:: max(1, len(baselines) // 12)] + [list(range(n))]

        def expected(arg):
            out = set()
            for a in arg:
                out |= set(chains_of[a]) if isinstance(a, str) else {a}
            return out

        calls = [0]
        fail_at = [None]
        seen = []

        def fake_sum_amp(data, cached=True):
            calls[0] += 1
            seen.append(sorted(dg.chains_idx))
            if fail_at[0] is not None and calls[0] == fail_at[0]:
                raise _Fault("fault at sum_amp call %d" % calls[0])
            return np.zeros(())

        real_sum_amp = dg.sum_amp
        dg.sum_amp = fake_sum_amp
        cl = {
            "temp_used_res/restored": "after `with temp_used_res(arg)` (DecayGroup and AmplitudeModel), normal exit or exception in the body: the chain selection equals, "
                                      "BY VALUE, the selection before the block",
            "temp_used_res/inside": "inside `with temp_used_res(arg)`: the selected chains are exactly the chains of the named resonances plus the listed indices",
            "partial_weight/restored": "after partial_weight(data, combine=[arg, ...]) and partial_weight_interference(data), normal return or exception at any sum_amp call: "
                                       "the chain selection equals, by value, the selection before the call",
            "partial_weight/each_combination": "partial_weight evaluates sum_amp once per combination, with exactly that combination's chains selected",
            "repeat/idempotent": "doing the same temporary selection twice in a row gives the same selections inside and restores the same selection after",
        }
        results = {k: [True, None, 0] for k in cl}

        def add(name, ok, wit):
            r = results[name]
            r[2] += 1
            if not ok and r[1] is None:
                r[0], r[1] = False, wit

        try:
            for base in baselines:
                for arg in args:
                    for owner, oname in ((dg, "DecayGroup"), (amp, "AmplitudeModel")):
                        for exit_ in ("normal", "exception"):
                            w = {"structure": sname, "baseline_selection": list(base), "argument": list(arg), "on": oname, "exit": exit_}
                            ctx.count(key="%s|%s|%s|%s|%s" % (sname, base, arg, oname, exit_), sample=w)
                            inside = []
                            for rep in range(2):
                                if rep == 0:
                                    dg.set_used_chains(list(base))
                                saved = list(dg.chains_idx)
                                try:
                                    with owner.temp_used_res(list(arg)):
                                        inside.append(sorted(dg.chains_idx))
                                        if exit_ == "exception":
                                            raise _Fault("fault in the body")
                                except _Fault:
                                    pass
                                after = list(dg.chains_idx)
                                add("temp_used_res/restored" if rep == 0 else "repeat/idempotent", after == saved == list(base),
                                    dict(w, selection_before=saved, selection_after=after, repetition=rep))
                            add("temp_used_res/inside", inside[0] == sorted(expected(arg)), dict(w, selected_inside=inside[0], expected=sorted(expected(arg))))
                            add("repeat/idempotent", inside[0] == inside[1], dict(w, inside_first=inside[0], inside_second=inside[1]))
                # partial_weight with two combinations built from arg lists
                combos = [[a, b] for a in args[:12] for b in args[-6:]]
                for combine in combos:
                    for fa in (None, 1, 2):
                        w = {"structure": sname, "baseline_selection": list(base), "combine": combine, "fault_at_sum_amp_call": fa}
                        ctx.count(key="%s|pw|%s|%s|%s" % (sname, base, combine, fa), sample=w)
                        dg.set_used_chains(list(base))
                        calls[0], fail_at[0] = 0, fa
                        del seen[:]
                        try:
                            dg.partial_weight(None, combine=[list(c) for c in combine])
                        except _Fault:
                            pass
                        after = list(dg.chains_idx)
                        add("partial_weight/restored", after == list(base), dict(w, selection_after=after))
                        if fa is None:
                            want = [sorted(expected(c)) for c in combine]
                            add("partial_weight/each_combination", seen == want, dict(w, selections_seen=list(seen), expected=want))
                for fa in (None, 1, 2):
                    w = {"structure": sname, "baseline_selection": list(base), "call": "partial_weight_interference", "fault_at_sum_amp_call": fa}
                    ctx.count(key="%s|pwi|%s|%s" % (sname, base, fa), sample=w)
                    dg.set_used_chains(list(base))
                    calls[0], fail_at[0] = 0, fa
                    del seen[:]
                    try:
                        dg.partial_weight_interference(None)
                    except _Fault:
                        pass
                    after = list(dg.chains_idx)
                    add("partial_weight/restored", after == list(base), dict(w, selection_after=after))
        finally:
            dg.sum_amp = real_sum_amp
            fail_at[0] = None
        for name, (ok, wit, cnt) in results.items():
            ctx.check(name, ok and cnt > 0, clause=cl[name] + "  [%d evaluations]" % cnt, detail=str(wit)[:1500] if wit else ("vacuous" if cnt == 0 else ""), witness=wit)

    return g


for _s in STRUCTS:
    group(["C17", "C05"], "amp.core.DecayGroup/selection_saved_by_value/%s" % _s,
          ["amp.core:DecayGroup.temp_used_res", "amp.core:DecayGroup.set_used_res", "amp.core:DecayGroup.set_used_chains", "amp.core:DecayGroup.add_used_chains",
           "amp.core:DecayGroup.partial_weight", "amp.core:DecayGroup.partial_weight_interference", "amp.amp:AmplitudeModel.temp_used_res"],
          env="shim", kind="B", no_native=True, cost=3,
          bound="structure %s; every subset of chains as baseline (+ one permuted order); argument lists of length <= 2 over resonance names and chain indices incl. mixed "
                "and repeated; normal / exception exits; sum_amp replaced by a recorder (no amplitude evaluated)" % _s)(_mk(_s))

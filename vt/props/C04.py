"""C04 - spinless cascades reproduce the closed-form Legendre x Breit-Wigner amplitude"""
LEVEL = "other"
EXPLANATION = ("Amplitude stage proved symbolically (vt/contracts/amp_sym.py): the real amplitude code on an all-symbolic data dictionary equals the closed form for every "
               "spin assignment J in 0..4^3 and every chain subset, with BWR/Bprime_q2 under proved callee contracts.  In addition: bounded end-to-end comparison at the public interface: ConfigLoader models with spin-0 external particles and resonances of spin 0..4 "
               "against an independent NumPy implementation of the closed form of the statement (Blatt-Weisskopf factors from reverse Bessel polynomials, "
               "running-width relativistic Breit-Wigner, Legendre polynomial of the helicity cosine computed by explicit boosts), absolute normalisation 1.")
ASSUMPTIONS = []

from vt.contracts import amp_sym, iface_amp, iface_c04_frames  # noqa: F401,E402
from vt.contracts import align_sym  # noqa: F401,E402  (cal_chain_boost: rest-frame momenta nested along the path, incl. a moving parent)

"""C11 - kinematic transformations are mutually inverse"""
LEVEL = "proof"
EXPLANATION = ("Function contracts on the real tf_pwa kinematics code (angle.py, data_trans/dalitz.py, data_trans/helicity_angle.py), "
               "executed symbolically under the tensorflow shim; each clause is discharged for all real inputs satisfying the precondition "
               "by the ring normaliser or z3; bounded clauses are reported separately.")
ASSUMPTIONS = []

from vt.contracts import angle  # noqa: F401,E402
from vt.contracts import dalitz  # noqa: F401,E402
from vt.contracts import euler  # noqa: F401,E402
from vt.contracts import roundtrip  # noqa: F401,E402
from vt.contracts import align_sym  # noqa: F401,E402  (cal_chain_boost: rest-frame momenta nested along the path)

"""C10 - phase-space events are physical, exactly counted and Lorentz-invariant flat"""
LEVEL = "proof"
EXPLANATION = ("Bounded runtime contracts at the public interface PhaseSpaceGenerator(m0, mi).generate(N) / ChainGenerator / generate_phsp / applications.gen_mc / "
               "ConfigLoader.generate_phsp_p: exact event count, on-shell and four-momentum conservation residuals, sub-system masses of nested chains, acceptance "
               "weight <= 1 on 1e5 proposals per mass set and seed; mass sets with massless and near-threshold daughters, n = 2..6 bodies.  Flatness is a "
               "statistical clause (thorough tier): Dalitz-plot chi-square for three bodies, recursive phase-space mass spectra for four and five bodies.")
ASSUMPTIONS = ["A-LIB: TensorFlow's random number generator delivers independent uniform variates (statistical clauses only)",
               "A-MATH: Raubold-Lynch - the product of break-up momenta is the Lorentz-invariant phase-space density in the sequential-mass coordinates"]

EXPLANATION += (' Proved (all inputs): exact event count of generate (loop VCs), monotonicity lemmas on the real get_p, acceptance weight <= 1 for n = 3, 4 (5 thorough) through set_decay / get_weight with get_p summarised by those lemmas, per-event acceptance rule of flatten_mass, two-body kinematics; cal_max_weight against a recording optimiser (bounded, modular).')

from vt.contracts import iface_gen  # noqa: F401,E402
from vt.contracts import loops  # noqa: F401,E402
from vt.contracts import phsp_sym  # noqa: F401,E402

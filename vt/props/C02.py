"""C02 - density does not depend on unphysical bookkeeping conventions"""
LEVEL = "other"
EXPLANATION = ("Bounded runtime contract at the public interface: pairs of ConfigLoader instances built from the same physics with permuted chain "
               "declaration order and/or re-optioned data section (align_ref, random_z, center_mass, only_left_angle) receive identical parameters by name "
               "and identical four-momenta; their densities must agree.  The SU(2) kernel contracts of DESIGN C02 are separate (proof) groups.")
ASSUMPTIONS = ["A-MATH: a change of alignment reference is a common unitary rotation of the final helicity basis (assumed, sampled here)"]

from vt.contracts import iface_amp  # noqa: F401,E402

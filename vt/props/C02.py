"""C02 - density does not depend on unphysical bookkeeping conventions"""
LEVEL = "other"
EXPLANATION = ("Bounded runtime contract at the public interface: pairs of ConfigLoader instances built from the same physics with permuted chain "
               "declaration order and/or re-optioned data section (align_ref, random_z, center_mass, only_left_angle) receive identical parameters by name "
               "and identical four-momenta; their densities must agree.  The SU(2) kernel contracts of DESIGN C02 are separate (proof) groups.")
ASSUMPTIONS = ["A-MATH: a change of alignment reference / z-axis convention acts on every chain as ONE common rotation of each final particle's helicity basis "
               "(kinematic fact, sampled by the bounded groups); that such a rotation leaves sum_helicities |.|^2 unchanged is the proved unitarity of the real "
               "D-matrices (dfun.D_matrix_conj/2j<=3) and the proved SU2M algebra / Euler-angle extraction (angle.SU2M.*)"]

EXPLANATION += (' Proved on the real cal_angle.py with opaque numerical callees: frame matrices of cal_helicity_angle are the path products over all ancestors; the alignment step hands get_euler_angle exactly b_ref r_ref inv(r_c) inv(b_c) with one reference chain per final particle, for several declaration orders; alignment D-matrices are selected by helicity value.')

from vt.contracts import dfun_sym, iface_amp, su2  # noqa: F401,E402
from vt.contracts import dgroup  # noqa: F401,E402  (D(R1) D(R2) = D(R1 R2): representation + homomorphism lemma)
from vt.contracts import align_sym  # noqa: F401,E402  (frame bookkeeping of cal_angle.py: chain boosts, frame matrices, alignment step)

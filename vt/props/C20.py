"""C20 - samplers, histograms and adaptive bins reproduce their targets"""
LEVEL = "other"
EXPLANATION = ("Bounded runtime contracts: acceptance-rejection (multi_sampling / single_sampling2 with an instrumented synthetic density; ConfigLoader.generate_toy / "
               "generate_toy_p on a small model): exact counts, physical events, no weight above the final bound; inverse-transform samplers (LinearInterp, BWGenerator, "
               "InterpND): integral(solve(u)) == u*int_all, range, antiderivative, multilinear interpolant; AdaptiveBound: exactly-one-bin partition incl. ties and boundary "
               "points, population bound derived from the percentile definition; Hist1D / WeightedData: sums of weights and squared weights, addition in quadrature.  "
               "Distributional clauses are statistical (thorough tier, false-alarm probability <= 1e-9 per test by the DKW inequality / chi-square quantiles).")
ASSUMPTIONS = ["A-LIB: numpy.random / tf.random deliver independent uniform variates (statistical clauses only); numpy.histogram, numpy.percentile, numpy.digitize are "
               "trusted only through the comparison with the independent implementations in the contracts"]

EXPLANATION += (' Proved (all inputs): LinearInterp (3 / 4 nodes) and BWGenerator CDF inversion, antiderivative and range; multi_sampling / single_sampling2 / GenTest.generate return exactly N events for every N >= 1 (loop VCs after a mechanical inlining of the generator into its driving loop).')

from vt.contracts import iface_gen  # noqa: F401,E402
from vt.contracts import interp_sym  # noqa: F401,E402
from vt.contracts import bwgen_sym  # noqa: F401,E402
from vt.contracts import loops  # noqa: F401,E402  (multi_sampling exact count: loop VCs)
from vt.contracts import hist_modular  # noqa: F401,E402  (Hist1D.histogram against a recording numpy.histogram)

"""C08 - a returned fit result and the model state describe the same point"""
LEVEL = "other"
EXPLANATION = ("Bounded runtime contracts: ConfigLoader.fit on a tiny 3-body model for every minimiser name the library accepts, constraint sets "
               "{none, fixed, tied, one-sided, two-sided, Gaussian}, several maxiter values and repeated fits in one session; the postconditions "
               "of the statement are asserted on FitResult vs live model state vs a freshly built model loaded from the saved file.")
ASSUMPTIONS = ["A-LIB: scipy.optimize.minimize / iminuit return a point x and f(x) as documented; convergence is not assumed"]

EXPLANATION += (' Proved on symbolic values: the write-back primitives of a fit step (set_trans_var / set_all / set / get / get_all_val with a bounded parameter at any position; standard_complex with tie groups). Modular runtime contract: fit_scipy against scripted abstract minimisers (incl. the LargeNumberError exit).')

from vt.contracts import iface_nll  # noqa: F401,E402
from vt.contracts import fit_resolution  # noqa: F401,E402
from vt.contracts import derivs  # noqa: F401,E402  (FCN / CombineFCN: the point passed is the point evaluated and stored)
from vt.contracts import var_sym  # noqa: F401,E402  (standard_complex with tie groups: the tidy-up that ends every scipy fit)
from vt.contracts import fit_modular  # noqa: F401,E402  (fit_scipy against scripted abstract minimisers)

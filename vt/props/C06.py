"""C06 - the negative log-likelihood equals its defining formula"""
LEVEL = "other"
EXPLANATION = ("Bounded runtime contracts at the public interface (ConfigLoader.get_fcn(...)(params), FCN.nll_grad(params)[0]) on a tiny 3-body "
               "model under real TensorFlow: the reported NLL is compared with a numpy evaluation of the defining formula (from the model's own "
               "per-event densities) for every likelihood model selectable by configuration, weights of both signs, all batch sizes around the "
               "sample size, common rescaling of the amplitudes, simultaneous data sets and Gaussian constraints.  Bounded evidence, not a proof.")
ASSUMPTIONS = ["the per-event densities amp(data) returned by the amplitude model are taken as given (amplitude-level properties are separate)"]

EXPLANATION += (' cfit / cfit_extended value formulas proved at lengths 1, 2; ModelCfitExtended and ModelCachedInt gradient paths return the documented value.')

from vt.contracts import iface_nll  # noqa: F401,E402
from vt.contracts import derivs  # noqa: F401,E402
from vt.contracts import autodiff_helpers  # noqa: F401,E402

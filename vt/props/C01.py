"""C01 - decay-rate density is independent of the observer's frame"""
LEVEL = "other"
EXPLANATION = ("Kernel contracts on the Lorentz-vector code (shared with C11) are proved symbolically; the composition (helicity-formalism theorem) "
               "is assumed; at the public interface ConfigLoader(dict).data.cal_angle(p4) -> get_amplitude()(data) the statement is checked as a "
               "bounded runtime contract over a fixed catalogue of decay structures, seeded phase-space events and a fixed grid of rotations, boosts, "
               "inversions and identical-particle exchanges.")
ASSUMPTIONS = ["A-MATH: helicity-formalism composition theorem (DESIGN C01) is assumed, only its premises are proved"]

EXPLANATION += (' Proved on real chains with opaque callees: cal_chain_boost nests the rest-frame boosts along the decay path starting from the frame the event is given in; frame matrices are path products.')

from vt.contracts import angle  # noqa: F401,E402
from vt.contracts import iface_amp  # noqa: F401,E402
from vt.contracts import amp_assembly  # noqa: F401,E402  (group level: density == sum_hel |sum_k A_k|^2 >= 0)
from vt.contracts import dgroup  # noqa: F401,E402  (D(R1) D(R2) = D(R1 R2): representation + homomorphism lemma)
from vt.contracts import amp_sym  # noqa: F401,E402  (cal_angle/mass_leaves_frame_independent)
from vt.contracts import euler  # noqa: F401,E402  (helicity-frame Euler angles incl. the third angle of angle_zx_zx)
from vt.contracts import dfun_sym  # noqa: F401,E402  (D unitarity, alignment-matrix selection by helicity value)
from vt.contracts import align_sym  # noqa: F401,E402  (frame bookkeeping of cal_angle.py: chain boosts, frame matrices)

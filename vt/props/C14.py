"""C14 - decay topologies are enumerated and identified correctly"""
LEVEL = "proof"
EXPLANATION = ("Ground-exhaustive function contracts on the real tf_pwa.particle code over the finite range of the statement: from_particles against "
               "the counting law (2n-3)!! and an independent enumeration of all binary trees; sorted_table / from_sorted_table round trips; topology_same "
               "against an independent recursion computing the final-state groupings; DecayGroup.topology_structure / get_chains_map on seeded decay groups.")
ASSUMPTIONS = []

from vt.contracts import particle_ground  # noqa: F401,E402

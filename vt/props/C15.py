"""C15 - line shapes equal their documented formulas"""
LEVEL = "proof"
EXPLANATION = ("Function contracts on the real tf_pwa line-shape code (breit_wigner.py and the particle models wrapping it). "
               "The Blatt-Weisskopf polynomial tables (hard-coded L <= 5 and generated L <= 8) are discharged ground-exhaustively against "
               "|theta_L(i sqrt z)|^2 computed in exact integers from the reverse Bessel polynomial; grid evaluations are reported separately as bounded.")
ASSUMPTIONS = []

EXPLANATION += (' Gounaris-Sakurai helper functions against their textbook forms and the pole clauses of GS (L = 0..2) proved.')

from vt.contracts import tables_ground  # noqa: F401,E402
from vt.contracts import lineshape  # noqa: F401,E402
from vt.contracts import iface_lineshape  # noqa: F401,E402

"""C17 - temporary overrides and derived computations leave the model unchanged"""
LEVEL = "proof"
EXPLANATION = ("Frame contracts with an exceptional clause on the context managers and derived computations of tf_pwa (amp/amp.py, amp/core.py, variable.py, config.py, "
               "fitfractions.py, applications.py, config_loader).  This module holds the dynamic confirmation on a small real model under real TensorFlow: the tracked state "
               "sigma and the density of fixed events are compared (==) before and after every function on the normal path, with an exception raised in the with-body or "
               "injected at every call into the amplitude, and for nested blocks.")
ASSUMPTIONS = ["dynamic confirmation only: one small model per structure, one parameter point, 16 events; exceptions are injected at the calls into the amplitude "
               "(decay_group.sum_amp, build_params_vector, sum_with_polarization, get_m_dep), not at arbitrary byte-code positions"]

from vt.contracts import iface_state  # noqa: F401,E402
from vt.contracts import frames_c17  # noqa: F401,E402
from vt.contracts import selection_alias  # noqa: F401,E402

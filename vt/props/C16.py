"""C16 - parameter constraints survive every sequence of updates"""
LEVEL = "other"
EXPLANATION = ("Bounded runtime contracts on the real tf_pwa.variable.VarsManager / Variable / Bound under real TensorFlow: every manager shape reachable in "
               "configuration order (create, fix/free, tie, bound) with up to 2 complex + 2 real parameters, then all operation sequences up to a stated length over a "
               "stated alphabet, the clauses of the statement evaluated after every step against expectations written from the statement and the docstrings; the "
               "Bound transformation on value grids for every bound type.  Nothing is proved for all histories.")
ASSUMPTIONS = ["histories are bounded in shape (<= 2 complex + 2 real parameters) and length (<= 3 quick / <= 4 thorough); argument values come from a fixed table"]

EXPLANATION += (' Proved for all values: rp2xy / xy2rp / std_polar / standard_complex preserve the complex value, Bound f / inverse / derivatives with symbolic limits, fit coordinates (set_trans_var, set_all, set, get, get_all_val) with a bounded parameter at every position.')

from vt.contracts import iface_vars  # noqa: F401,E402
from vt.contracts import var_sym  # noqa: F401,E402
from vt.contracts import iface_c16_config  # noqa: F401,E402

"""C07 - returned gradients and Hessians are the true derivatives of the returned NLL"""
LEVEL = "proof"
EXPLANATION = ("Interface part: bounded runtime contracts under real TensorFlow comparing the gradient, Hessian and Hessian-vector product returned "
               "by the likelihood object (and by the bound-transform wrappers of VarsManager) with Richardson-extrapolated central finite "
               "differences of the values / gradients the same object returns, for every likelihood model selectable by configuration, "
               "bound types, floating sets, shared / fixed parameters and Gaussian constraints.  Bounded groups are reported separately "
               "and never counted as proved.")
ASSUMPTIONS = ["A-AD: TensorFlow's GradientTape / ForwardAccumulator return the derivative of the traced computation"]

from vt.contracts import iface_nll  # noqa: F401,E402
from vt.contracts import derivs  # noqa: F401,E402
from vt.contracts import autodiff_helpers  # noqa: F401,E402

"""C09 - uncertainties are first-order propagated from the inverse Hessian"""
LEVEL = "proof"
EXPLANATION = ("Interface part: bounded runtime contracts under real TensorFlow: parameter errors vs sqrt(diag(inv(H))) with H taken from "
               "fcn.nll_grad_hessian, fit-fraction errors vs first-order propagation with a finite-difference Jacobian of the fraction itself, "
               "and every NumberError operator vs finite-difference first-order propagation on a seeded operand grid including negative values "
               "and uncertain exponents.  Bounded groups are reported separately and never counted as proved.")
ASSUMPTIONS = ["A-LIB: numpy.linalg.inv / eig"]

EXPLANATION += (' FitFractions.get_frac / get_frac_diag_sum errors == sqrt(g V g) for the covariance in force at each query (proved).')

from vt.contracts import iface_nll  # noqa: F401,E402
from vt.contracts import errnum  # noqa: F401,E402
from vt.contracts import fitfrac_sym  # noqa: F401,E402
from vt.contracts import params_trans_sym  # noqa: F401,E402

"""C19 - a configuration determines the model deterministically and completely"""
LEVEL = "other"
EXPLANATION = ("Bounded runtime contracts on the real loader (ConfigLoader / DecayConfig / DecayGroup.as_config under real TensorFlow) over a stated grammar of "
               "decay cards: 3- and 4-body, <= 2 candidates per resonance slot, per-decay options p_break / l_list, one $include, alias vs expanded keys, "
               "key-order permutations.  Every configuration is loaded twice in the check process and again in fresh interpreters with a different "
               "PYTHONHASHSEED (same chains, parameter names, trainable_vars, bound_dic); the chain list is compared with an independent enumeration of the "
               "declared decay graph filtered by textbook spin-parity rules (forbidden chains absent, allowed chains present, every chain a tree from $top "
               "to exactly $finals); aliases, includes with key-by-key override and candidate lists are compared with their expanded form; "
               "DecayGroup.as_config is reloaded and compared on chains and J, P, mass, width.  Nothing is proved for configurations outside the grammar; "
               "determinism of third-party pieces (yaml, sympy printing) is not covered.")
ASSUMPTIONS = [
    "C19 is bounded: the quantifier 'for all generated configurations' is instantiated by the seeded grammar stated in each group's bound",
    "a card without any allowed chain is rejected by the loader (RuntimeError 'not decay chain aviable'): such cards are outside the grammar",
]

from vt.contracts import iface_config  # noqa: F401,E402
from vt.contracts import particle_ground  # noqa: F401,E402  (config_loader.DecayConfig/ls_cut_shared_decays: exhaustive over its stated family)
from vt.contracts import config_ground  # noqa: F401,E402  (ground contracts on the pure helpers of the configuration grammar)

"""C13 - partial-wave (l,s) selection is sound, complete and non-redundant"""
LEVEL = "proof"
EXPLANATION = ("Ground-exhaustive function contracts on the real tf_pwa code over the finite range of the statement: GetA2BC_LS_list against the "
               "triangle/parity/C-parity rules for every spin triple up to 4 in every python spelling; the LS -> helicity matrices of Decay / HelicityDecay "
               "against exact (Racah, rational arithmetic) Clebsch-Gordan products for all spins up to 5/2 with a Gershgorin rank certificate and the "
               "Jacob-Wick count of independent helicity amplitudes; l_list / ls_list restrictions of HelicityDecay.get_ls_list.")
ASSUMPTIONS = []

from vt.contracts import particle_ground  # noqa: F401,E402

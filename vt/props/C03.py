"""C03 - amplitudes superpose linearly; fit fractions obey the sum rule"""
LEVEL = "other"
EXPLANATION = ("Bounded runtime contracts at the public interface: DecayGroup.get_amp3 under set_used_chains / set_used_res / temp_used_res against partial "
               "sums of single-chain amplitudes for every subset, homogeneity of each chain amplitude in its own complex coupling, and the fit fractions of "
               "tf_pwa.applications.fit_fractions / FitFractions / ConfigLoader.cal_fitfractions against their defining ratios, the sum rule (one listed "
               "resonance per chain) and independence of the batch size.")
ASSUMPTIONS = ["fit-fraction sum rule is claimed only when every chain contains exactly one of the listed resonances"]

EXPLANATION += (' set_used_res / set_used_chains store each selected chain exactly once (proved on 5 structures).')

from vt.contracts import amp_assembly, iface_amp  # noqa: F401,E402
from vt.contracts import fitfrac_sym  # noqa: F401,E402

"""C05 - every evaluation strategy returns the same density and likelihood"""
LEVEL = "other"
EXPLANATION = ("(b) strategy switches: bounded runtime contracts at the public interface - every compatible combination of the data-section options "
               "preprocessor / amp_model / use_tf_function / no_id_cached / jit_compile / lazy_call is compared with plain eager default evaluation on the "
               "same parameters and events (first call, compiled second call, second data object); cached_int / cached_amp likelihood models are compared "
               "with the default model's NLL and gradient.  (a) the custom contraction routine has its own contract groups.")
ASSUMPTIONS = ["A-LIB: TensorFlow graph tracing / XLA compilation are trusted only through the bounded comparison"]

EXPLANATION += (' The cached_int likelihood is proved equal to the default formula (value incl. clip_log, gradient, Hessian).')

from vt.contracts import iface_amp  # noqa: F401,E402
from vt.contracts import amp_assembly, einsum_sym, selection_alias  # noqa: F401,E402
from vt.contracts import derivs  # noqa: F401,E402  (cached_int likelihood == default formula incl. clip_log; gradient / Hessian)
from vt.contracts import strategy_sym  # noqa: F401,E402  (cached_amp == plain amplitude as a polynomial identity)

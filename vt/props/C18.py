"""C18 - structured event data operations are lossless"""
LEVEL = "proof"
EXPLANATION = ("Bounded runtime contracts on the real tf_pwa.data helpers (split / generator / merge / batch_call / batch_sum / mask / index / map / struct / "
               "strip / replace / flatten, LazyCall) and on the momentum-file conventions (load_dat_file, CalAngleData.savetxt, config_loader.data savetxt / "
               "load_p4 / cached data, save_data / load_data): exact comparison with numpy/python specifications written from the property statement, over "
               "seeded nested structures incl. empty containers, boundary sample and batch sizes, every dat_order permutation and two-file inputs.")
ASSUMPTIONS = ["A-LIB: numpy text / npy / npz serialisation and tf.concat / tf.boolean_mask / tf.data are trusted through the exact round-trip comparison only"]

EXPLANATION += (" Proved: _data_split partition for all sizes (loop VCs); load_dat_file's file -> particle index map on symbolic file contents (sizes bounded).")

from vt.contracts import iface_data  # noqa: F401,E402
from vt.contracts import loops  # noqa: F401,E402
from vt.contracts import data_sym  # noqa: F401,E402  (file -> particle index map on symbolic file contents)

"""C12 - rotation-group functions (Wigner D, Clebsch-Gordan, SU(2) angles) are exact"""
LEVEL = "proof"
EXPLANATION = ("Function contracts on the real tf_pwa rotation-group kernels (dfun.py, cg.py + cg_table.json, angle.py SU2M). "
               "The discrete labels (2j <= 8, all m, m', all CG label tuples with j <= 4, all helicity lists) are discharged ground-exhaustively "
               "against spec functions written in exact arithmetic (Wigner's and Racah's formulas in fractions.Fraction, squares and signs compared "
               "separately, 4 ulp); statements over angles are polynomial identities on the weight table or symbolic groups; evaluations at "
               "listed angles are reported separately as bounded.")
ASSUMPTIONS = []

from vt.contracts import tables_ground  # noqa: F401,E402
from vt.contracts import dfun_sym  # noqa: F401,E402
from vt.contracts import su2  # noqa: F401,E402
from vt.contracts import dgroup  # noqa: F401,E402

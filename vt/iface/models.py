"""Shared helpers for the interface-level (kind "B") contract groups.

* a catalogue of small decay structures as plain Python data, turned into ConfigLoader dict configs;
* seeded phase-space events (tf_pwa.phasespace.PhaseSpaceGenerator, loaded through ctx.mod);
* Lorentz transformations written in numpy (independent of tf_pwa.angle);
* parameter randomisation BY NAME (value depends only on (name, seed), so two loaders built from permuted
  configurations receive identical physics).

Nothing here imports tf_pwa directly: repository modules always come from ctx.mod(...).
Four-vectors are (E, px, py, pz), the layout used by the repository data files.
"""
from __future__ import annotations

import copy
import itertools
import math
import zlib

import numpy as np

# ---------------------------------------------------------------------------------------------
# catalogue of structures
# ---------------------------------------------------------------------------------------------
# particle dicts use the configuration grammar (J, P, mass; m0/g0 for resonances)
# a chain is a list of decays (mother, [daughters]); the order of daughters is part of the convention


def _d(core, *outs):
    return (core, list(outs))


STRUCTS = {
    # (0; 0,0,0): spinless Dalitz decay, resonances of spin 1, 2, 0
    "s000": {
        "top": ("A", {"J": 0, "P": -1, "mass": 3.0}),
        "finals": [("B", {"J": 0, "P": -1, "mass": 0.5}), ("C", {"J": 0, "P": -1, "mass": 0.3}), ("D", {"J": 0, "P": -1, "mass": 0.14})],
        "res": {"R_BC": {"J": 1, "P": -1, "m0": 1.5, "g0": 0.15}, "R_BD": {"J": 2, "P": 1, "m0": 1.3, "g0": 0.2},
                "R_CD": {"J": 0, "P": 1, "m0": 0.98, "g0": 0.1}},
        "chains": {"bc": [_d("A", "R_BC", "D"), _d("R_BC", "B", "C")], "bd": [_d("A", "R_BD", "C"), _d("R_BD", "B", "D")],
                   "cd": [_d("A", "R_CD", "B"), _d("R_CD", "C", "D")]},
    },
    # (1; 1,1,0): the structure of tf_pwa/tests/config_toy.yml
    "s110": {
        "top": ("A", {"J": 1, "P": -1, "mass": 4.6}),
        "finals": [("B", {"J": 1, "P": -1, "mass": 2.00698}), ("C", {"J": 1, "P": -1, "mass": 2.01028}), ("D", {"J": 0, "P": -1, "mass": 0.13957})],
        "res": {"R_BC": {"J": 1, "P": 1, "m0": 4.16, "g0": 0.1}, "R_BD": {"J": 1, "P": 1, "m0": 2.43, "g0": 0.3},
                "R_CD": {"J": 1, "P": 1, "m0": 2.42, "g0": 0.03}},
        "chains": {"bc": [_d("A", "R_BC", "D"), _d("R_BC", "B", "C")], "bd": [_d("A", "R_BD", "C"), _d("R_BD", "B", "D")],
                   "cd": [_d("A", "R_CD", "B"), _d("R_CD", "C", "D")]},
    },
    # (1; 1,1,0) with FOUR chains whose declaration order INTERLEAVES topologies: (BC)D, (BD)C, (BC)D, (CD)B.  Two resonances share the
    # (BC)D topology and are separated by one of another topology, so "position in the chain list", "position in the current selection"
    # and "position inside the topology group" are three different numbers for chains 1 and 2.  All resonances are 1+, so every chain has
    # the same number (6) of LS-coupling products: a strategy that pairs per-chain tensors of two different chains gets matching shapes
    # and a wrong number instead of an exception.  No identical particles.
    "s110x": {
        "top": ("A", {"J": 1, "P": -1, "mass": 4.6}),
        "finals": [("B", {"J": 1, "P": -1, "mass": 2.00698}), ("C", {"J": 1, "P": -1, "mass": 2.01028}), ("D", {"J": 0, "P": -1, "mass": 0.13957})],
        "res": {"R_BC": {"J": 1, "P": 1, "m0": 4.16, "g0": 0.1}, "R_BD": {"J": 1, "P": 1, "m0": 2.43, "g0": 0.3},
                "R_BC2": {"J": 1, "P": 1, "m0": 4.3, "g0": 0.15}, "R_CD": {"J": 1, "P": 1, "m0": 2.42, "g0": 0.03}},
        "chains": {"bc": [_d("A", "R_BC", "D"), _d("R_BC", "B", "C")], "bd": [_d("A", "R_BD", "C"), _d("R_BD", "B", "D")],
                   "bc2": [_d("A", "R_BC2", "D"), _d("R_BC2", "B", "C")], "cd": [_d("A", "R_CD", "B"), _d("R_CD", "C", "D")]},
        "topology": {"bc": "(BC)D", "bd": "(BD)C", "bc2": "(BC)D", "cd": "(CD)B"},
    },
    # (1/2; 1/2,0,0)
    "sh00": {
        "top": ("A", {"J": 0.5, "P": 1, "mass": 5.62}),
        "finals": [("B", {"J": 0.5, "P": 1, "mass": 0.938}), ("C", {"J": 0, "P": -1, "mass": 0.494}), ("D", {"J": 0, "P": -1, "mass": 1.865})],
        "res": {"R_BC": {"J": 1.5, "P": -1, "m0": 1.52, "g0": 0.1}, "R_BD": {"J": 0.5, "P": 1, "m0": 2.94, "g0": 0.2},
                "R_CD": {"J": 1, "P": -1, "m0": 2.86, "g0": 0.15}},
        "chains": {"bc": [_d("A", "R_BC", "D"), _d("R_BC", "B", "C")], "bd": [_d("A", "R_BD", "C"), _d("R_BD", "B", "D")],
                   "cd": [_d("A", "R_CD", "B"), _d("R_CD", "C", "D")]},
    },
    # (1; 1,1/2,1/2)
    "s1hh": {
        "top": ("A", {"J": 1, "P": -1, "mass": 3.686}),
        "finals": [("B", {"J": 1, "P": -1, "mass": 0.78}), ("C", {"J": 0.5, "P": 1, "mass": 0.938}), ("D", {"J": 0.5, "P": -1, "mass": 0.9383})],
        "res": {"R_BC": {"J": 1.5, "P": -1, "m0": 2.0, "g0": 0.2}, "R_BD": {"J": 0.5, "P": -1, "m0": 2.1, "g0": 0.25},
                "R_CD": {"J": 1, "P": -1, "m0": 2.1, "g0": 0.2}},
        "chains": {"bc": [_d("A", "R_BC", "D"), _d("R_BC", "B", "C")], "bd": [_d("A", "R_BD", "C"), _d("R_BD", "B", "D")],
                   "cd": [_d("A", "R_CD", "B"), _d("R_CD", "C", "D")]},
    },
    # (1; 1,0,0) with the two spin-0 finals declared identical
    "sid0": {
        "top": ("A", {"J": 1, "P": -1, "mass": 4.26}),
        "finals": [("B", {"J": 1, "P": -1, "mass": 3.0969}), ("C", {"J": 0, "P": -1, "mass": 0.13957}), ("D", {"J": 0, "P": -1, "mass": 0.13957})],
        "res": {"R_BC": {"J": 1, "P": 1, "m0": 3.9, "g0": 0.05}, "R_CD": {"J": 0, "P": 1, "m0": 0.98, "g0": 0.07},
                "R2_CD": {"J": 2, "P": 1, "m0": 1.27, "g0": 0.18}},
        "chains": {"bc": [_d("A", "R_BC", "D"), _d("R_BC", "B", "C")], "cd": [_d("A", "R_CD", "B"), _d("R_CD", "C", "D")],
                   "cd2": [_d("A", "R2_CD", "B"), _d("R2_CD", "C", "D")]},
        "identical": [["C", "D"]],
    },
    # (0; 0,1/2,1/2) with two identical fermions (exchange sign -1 inside the library)
    "sidh": {
        "top": ("A", {"J": 0, "P": -1, "mass": 2.98}),
        "finals": [("B", {"J": 0, "P": -1, "mass": 0.548}), ("C", {"J": 0.5, "P": 1, "mass": 0.938}), ("D", {"J": 0.5, "P": 1, "mass": 0.938})],
        "res": {"R_BC": {"J": 0.5, "P": -1, "m0": 1.6, "g0": 0.15}, "R_CD": {"J": 1, "P": -1, "m0": 2.1, "g0": 0.2},
                "R3_BC": {"J": 1.5, "P": 1, "m0": 1.72, "g0": 0.2}},
        "chains": {"bc": [_d("A", "R_BC", "D"), _d("R_BC", "B", "C")], "cd": [_d("A", "R_CD", "B"), _d("R_CD", "C", "D")],
                   "bc3": [_d("A", "R3_BC", "D"), _d("R3_BC", "B", "C")]},
        "identical": [["C", "D"]],
    },
    # (0; 0,1,1) with two identical vector particles
    "sid1": {
        "top": ("A", {"J": 0, "P": -1, "mass": 3.4}),
        "finals": [("B", {"J": 0, "P": -1, "mass": 0.14}), ("C", {"J": 1, "P": -1, "mass": 0.78}), ("D", {"J": 1, "P": -1, "mass": 0.78})],
        "res": {"R_BC": {"J": 1, "P": 1, "m0": 1.23, "g0": 0.2}, "R_CD": {"J": 0, "P": 1, "m0": 2.0, "g0": 0.3}},
        "chains": {"bc": [_d("A", "R_BC", "D"), _d("R_BC", "B", "C")], "cd": [_d("A", "R_CD", "B"), _d("R_CD", "C", "D")]},
        "identical": [["C", "D"]],
    },
    # (1; 1,1,1) with THREE identical vector particles: the symmetrisation runs over the 3! exchanges, among them the two CYCLIC ones (a permutation that is
    # not its own inverse - added after seeded change C01-swap_transpose_inverse_permutation)
    "sid3": {
        "top": ("A", {"J": 1, "P": -1, "mass": 4.2}),
        "finals": [("B", {"J": 1, "P": -1, "mass": 0.78}), ("C", {"J": 1, "P": -1, "mass": 0.78}), ("D", {"J": 1, "P": -1, "mass": 0.78})],
        "res": {"R_BC": {"J": 1, "P": 1, "m0": 2.9, "g0": 0.3}, "R_BD": {"J": 1, "P": 1, "m0": 2.9, "g0": 0.3}, "R_CD": {"J": 1, "P": 1, "m0": 2.9, "g0": 0.3}},
        "chains": {"bc": [_d("A", "R_BC", "D"), _d("R_BC", "B", "C")], "bd": [_d("A", "R_BD", "C"), _d("R_BD", "B", "D")],
                   "cd": [_d("A", "R_CD", "B"), _d("R_CD", "C", "D")]},
        "identical": [["B", "C", "D"]],
    },
    # four-body (0; 0,0,0,0) with TWO groups of identical spin-0 particles (B~C and D~E): the symmetrisation must combine the groups
    "sid2g": {
        "top": ("A", {"J": 0, "P": -1, "mass": 3.1}),
        "finals": [("B", {"J": 0, "P": -1, "mass": 0.1396}), ("C", {"J": 0, "P": -1, "mass": 0.1396}), ("D", {"J": 0, "P": -1, "mass": 0.4937}),
                   ("E", {"J": 0, "P": -1, "mass": 0.4937})],
        "res": {"R_BD": {"J": 1, "P": -1, "m0": 0.892, "g0": 0.05}, "R_CE": {"J": 1, "P": -1, "m0": 0.892, "g0": 0.05},
                "R_BC": {"J": 1, "P": -1, "m0": 0.775, "g0": 0.15}, "R_DE": {"J": 1, "P": -1, "m0": 1.02, "g0": 0.02}},
        "chains": {"br": [_d("A", "R_BD", "R_CE"), _d("R_BD", "B", "D"), _d("R_CE", "C", "E")],
                   "br2": [_d("A", "R_BC", "R_DE"), _d("R_BC", "B", "C"), _d("R_DE", "D", "E")]},
        "identical": [["B", "C"], ["D", "E"]],
    },
    # four-body (1/2; 1/2,0,0,1): cascades of two topologies, different top-level partners, and a branching chain
    "f4": {
        "top": ("A", {"J": 0.5, "P": 1, "mass": 5.62}),
        "finals": [("B", {"J": 0.5, "P": 1, "mass": 0.938}), ("C", {"J": 0, "P": -1, "mass": 0.494}), ("D", {"J": 0, "P": -1, "mass": 0.1396}),
                   ("E", {"J": 1, "P": -1, "mass": 3.0969})],
        "res": {"R_BCE": {"J": 0.5, "P": -1, "m0": 5.2, "g0": 0.3}, "R_BE": {"J": 1.5, "P": -1, "m0": 4.38, "g0": 0.2},
                "R_BCD": {"J": 1.5, "P": 1, "m0": 2.1, "g0": 0.3}, "R_BC": {"J": 1.5, "P": -1, "m0": 1.52, "g0": 0.1},
                "R_CD": {"J": 1, "P": -1, "m0": 0.892, "g0": 0.05}, "R_DE": {"J": 1, "P": 1, "m0": 3.9, "g0": 0.1}},
        "chains": {
            "cas": [_d("A", "R_BCE", "D"), _d("R_BCE", "R_BE", "C"), _d("R_BE", "B", "E")],       # A->R1 D, R1->R2 C, R2->B E
            "cas2": [_d("A", "R_BCD", "E"), _d("R_BCD", "R_BC", "D"), _d("R_BC", "B", "C")],
            "cas3": [_d("A", "R_BCD", "E"), _d("R_BCD", "R_CD", "B"), _d("R_CD", "C", "D")],
            "br": [_d("A", "R_BC", "R_DE"), _d("R_BC", "B", "C"), _d("R_DE", "D", "E")],           # A->R1 R2, R1->B C, R2->D E
        },
    },
}


def struct(name):
    return STRUCTS[name]


def nm(sname, x):
    """configuration-level particle name.  Every structure gets its own particle names: the repository caches
    Clebsch-Gordan matrices (functools.lru_cache on HelicityDecay._get_cg_matrix) under keys that compare decays BY NAME,
    so two loaders in one process that reuse a name with different spins would read each other's tables.  That is a
    property of the library's process-global caches, not of the properties checked here, so the harness avoids it."""
    return "%s%s" % (x, STRUCTS[sname].get("tag", sname))


def final_names(sname):
    return [nm(sname, n) for n, _ in STRUCTS[sname]["finals"]]


def is_three_body(sname):
    return len(STRUCTS[sname]["finals"]) == 3


def build_config(sname, chains=None, data=None, vertex=None, res_over=None, identical=True, top_over=None):
    """dict configuration for ConfigLoader.

    chains  : ordered list of chain keys of the structure (default: all, catalogue order); the order is the declaration order
    data    : extra entries of the `data:` section (random_z, align_ref, amp_model, ...)
    vertex  : {(mother, d1, d2): {decay option: value}}, e.g. {("A","R_BC","D"): {"p_break": True}}
    res_over: {resonance: {key: value}} overrides of resonance properties (e.g. {"R_BD": {"float": "g"}}: mass fixed, width floating)
    top_over: {key: value} overrides of the decaying particle (e.g. {"spins": [-1, 1]}: only these helicities are populated)
    """
    st = STRUCTS[sname]
    chains = list(st["chains"]) if chains is None else list(chains)
    vertex = vertex or {}
    decay = {}
    used_res = []
    N = lambda x: nm(sname, x)  # noqa: E731
    for ck in chains:
        for core, outs in st["chains"][ck]:
            item = [N(o) for o in outs]
            opt = vertex.get((core,) + tuple(outs))
            if opt:
                item.append(dict(opt))
            lst = decay.setdefault(N(core), [])
            if not any(x[:2] == item[:2] for x in lst):
                lst.append(item)
            for o in (core,) + tuple(outs):
                if o in st["res"] and o not in used_res:
                    used_res.append(o)
    topn, topd = st["top"]
    particle = {"$top": {N(topn): dict(topd, **(top_over or {}))}, "$finals": {N(n): dict(d) for n, d in st["finals"]}}
    for r in used_res:
        particle[N(r)] = dict(st["res"][r])
        if res_over and r in res_over:
            particle[N(r)].update(res_over[r])
    dsec = {"dat_order": final_names(sname)}
    if identical and st.get("identical"):
        dsec["identical_particles"] = [[N(x) for x in grp] for grp in st["identical"]]
    dsec.update(data or {})
    return {"data": dsec, "decay": decay, "particle": particle}


def load(ctx, cfg):
    """-> (ConfigLoader instance, amplitude model); the dict is deep-copied (ConfigLoader pops entries)"""
    ConfigLoader = ctx.mod("config_loader").ConfigLoader
    config = ConfigLoader(copy.deepcopy(cfg))
    amp = config.get_amplitude()
    return config, amp


def chain_names(amp):
    return [str(c) for c in amp.decay_group.chains]


# ---------------------------------------------------------------------------------------------
# events
# ---------------------------------------------------------------------------------------------


def minkowski_m(p):
    m2 = p[..., 0] ** 2 - np.sum(p[..., 1:] ** 2, axis=-1)
    return np.sqrt(np.abs(m2))


def boost_many(p, beta):
    """boost four-vectors p (n,4) by per-event velocities beta (n,3): a particle at rest acquires velocity beta"""
    b2 = np.sum(beta * beta, axis=1)
    g = 1.0 / np.sqrt(1.0 - b2)
    k = g * g / (1.0 + g)
    bp = np.sum(beta * p[:, 1:], axis=1)
    E = g * (p[:, 0] + bp)
    sp = p[:, 1:] + (k * bp + g * p[:, 0])[:, None] * beta
    return np.concatenate([E[:, None], sp], axis=1)


def numpy_phsp(m0, mi, n, seed):
    """independent generator of physical events (sequential two-body decays, isotropic angles, uniform intermediate masses;
    NOT flat in phase space - the contracts only need physical events covering the region)"""
    rs = np.random.RandomState(424242 + int(seed))
    k = len(mi)
    out = [None] * k
    M_cur = np.full(n, float(m0))
    frame = np.zeros((n, 3))  # velocity of the current system in the parent rest frame (accumulated by boosting)
    boosts = []
    for j in range(k - 1, 0, -1):
        lo = sum(mi[:j])
        M_sub = lo + rs.uniform(size=n) * (M_cur - mi[j] - lo) if j > 1 else np.full(n, float(mi[0]))
        lam = (M_cur**2 - (M_sub + mi[j]) ** 2) * (M_cur**2 - (M_sub - mi[j]) ** 2)
        q = np.sqrt(np.maximum(lam, 0.0)) / (2 * M_cur)
        cos_t = rs.uniform(-1, 1, size=n)
        phi = rs.uniform(0, 2 * math.pi, size=n)
        sin_t = np.sqrt(1 - cos_t**2)
        u = np.stack([sin_t * np.cos(phi), sin_t * np.sin(phi), cos_t], axis=1)
        pj = np.concatenate([np.sqrt(q * q + mi[j] ** 2)[:, None], q[:, None] * u], axis=1)
        psub = np.concatenate([np.sqrt(q * q + M_sub**2)[:, None], -q[:, None] * u], axis=1)
        for b in reversed(boosts):
            pj = boost_many(pj, b)
        out[j] = pj
        boosts.append(psub[:, 1:] / psub[:, 0:1])
        if j == 1:
            p0 = np.concatenate([np.full((n, 1), float(mi[0])), np.zeros((n, 3))], axis=1)
            for b in reversed(boosts):
                p0 = boost_many(p0, b)
            out[0] = p0
        M_cur = M_sub
    return out


def _physical(ps, m0, mi):
    if not all(np.all(np.isfinite(p)) for p in ps):
        return False
    tot = sum(ps)
    if any(np.max(np.abs(minkowski_m(p) - m)) > 1e-7 for p, m in zip(ps, mi)):
        return False
    # the repository generator stores the parent mass in single precision: sqrt(s) = float32(m0), up to 6e-8 relative off the nominal mass
    return bool(np.max(np.abs(tot[:, 1:])) < 1e-7 and np.max(np.abs(tot[:, 0] - m0)) < 2e-7 * m0)


PHSP_FALLBACKS = []


def phsp(ctx, sname, n, seed):
    """n seeded phase-space events in the parent rest frame: list of (n,4) float64 arrays in final_names order.
    The generator is the repository's (tf_pwa.phasespace.PhaseSpaceGenerator).  What the contracts rely on (on-shell finals,
    momentum conservation) is checked here in numpy; if the repository generator does not deliver physical events (it uses the
    Lorentz-vector kernels, which may be the mutated code), an independent numpy generator is used instead and the fact is
    recorded in PHSP_FALLBACKS, so that a broken generator neither hides nor fakes a violation of the property under check."""
    tf = ctx.mod("tensorflow_wrapper").tf
    st = STRUCTS[sname]
    m0 = st["top"][1]["mass"]
    mi = [d["mass"] for _, d in st["finals"]]
    ps = None
    try:
        gen = ctx.mod("phasespace").PhaseSpaceGenerator(m0, mi)
        tf.random.set_seed(int(seed) * 7919 + (zlib.crc32(sname.encode()) % 100003))
        out = []
        tries = 0
        while sum(len(x[0]) for x in out) < n and tries < 50:
            tries += 1
            out.append([np.asarray(p, dtype=np.float64) for p in gen.generate(max(n, 16))])
        ps = [np.concatenate([o[i] for o in out])[:n] for i in range(len(mi))]
        if len(ps[0]) < n or not _physical(ps, m0, mi):
            ps = None
    except Exception:
        ps = None
    if ps is None:
        PHSP_FALLBACKS.append(sname)
        ps = numpy_phsp(m0, mi, n, int(seed) * 7919 + (zlib.crc32(sname.encode()) % 100003))
        assert _physical(ps, m0, mi), "numpy fallback generator produced unphysical events"
    return ps


def p4dict(sname, ps):
    return dict(zip(final_names(sname), ps))


def cal_data(config, sname, ps):
    return config.data.cal_angle(p4dict(sname, [np.array(p) for p in ps]))


def mixed_charges(n, seed):
    """seeded per-event charges in {+1, -1}; both signs occur (n >= 2)"""
    c = np.where(np.random.RandomState(9000 + int(seed)).uniform(size=n) < 0.5, -1.0, 1.0)
    c[0], c[1] = 1.0, -1.0
    return c


def cal_data_extra(config, sname, ps, charge=None, weight=None):
    """data object carrying per-event extra variables, built in memory the way the data section's `data_charge` / `data_weight`
    files are consumed (tf_pwa/config_loader/data.py SimpleData.load_data): the extra variables are handed to cal_angle (the
    preprocessor receives them under x["extra"], keys "charge_conjugation" and "weight") and are then attached to the data object."""
    n = len(ps[0])
    extra = {"weight": np.ones(n) if weight is None else np.array(weight, dtype=np.float64),
             "charge_conjugation": np.ones(n) if charge is None else np.array(charge, dtype=np.float64)}
    data = config.data.cal_angle(p4dict(sname, [np.array(p) for p in ps]), **extra)
    for k, v in extra.items():
        data[k] = v
    return data


def ulp_perturbed(ps, k, rel=4e-16):
    """the events with every momentum component multiplied by 1 +- rel (seeded signs): a perturbation of 2-4 ulp, the size of the
    rounding a strategy commits when it recomputes a kinematic quantity in another order.  Used to MEASURE the conditioning of the
    density at each event (backward-error argument), never as test input."""
    rs = np.random.RandomState(271828 + int(k))
    return [np.array(p, dtype=np.float64) * (1.0 + rel * rs.choice([-1.0, 1.0], size=np.shape(p))) for p in ps]


def density(config, amp, sname, ps):
    """public path: ConfigLoader.data.cal_angle(p4) -> amplitude model __call__"""
    data = cal_data(config, sname, ps)
    return np.asarray(amp(data), dtype=np.float64)


# ---------------------------------------------------------------------------------------------
# Lorentz transformations (numpy, textbook)
# ---------------------------------------------------------------------------------------------


def rot_axis(axis, ang):
    """active rotation matrix about a coordinate axis (0:x,1:y,2:z) (Rodrigues)"""
    n = np.zeros(3)
    n[axis] = 1.0
    return rot_about(n, ang)


def rot_about(n, ang):
    n = np.asarray(n, dtype=float)
    n = n / np.linalg.norm(n)
    K = np.array([[0, -n[2], n[1]], [n[2], 0, -n[0]], [-n[1], n[0], 0]])
    return np.eye(3) + math.sin(ang) * K + (1 - math.cos(ang)) * (K @ K)


def random_rot(rs):
    """Haar-ish random proper rotation from a seeded RandomState (QR of a Gaussian matrix)"""
    q, r = np.linalg.qr(rs.normal(size=(3, 3)))
    q = q * np.sign(np.diag(r))
    if np.linalg.det(q) < 0:
        q[:, 0] = -q[:, 0]
    return q


def lorentz_rot(R):
    L = np.eye(4)
    L[1:, 1:] = R
    return L


def lorentz_boost(beta_vec):
    """boost matrix taking a particle at rest to velocity beta_vec: Lambda = [[g, g b^T],[g b, 1 + (g-1) b b^T / b^2]]"""
    b = np.asarray(beta_vec, dtype=float)
    b2 = float(b @ b)
    L = np.eye(4)
    if b2 == 0.0:
        return L
    g = 1.0 / math.sqrt(1.0 - b2)
    # (g-1)/b2 evaluated without cancellation: g^2/(1+g)
    k = g * g / (1.0 + g)
    L[0, 0] = g
    L[0, 1:] = g * b
    L[1:, 0] = g * b
    L[1:, 1:] = np.eye(3) + k * np.outer(b, b)
    return L


PARITY = np.diag([1.0, -1.0, -1.0, -1.0])


def apply(L, ps):
    return [p @ L.T for p in ps]


DIRS6 = [np.array(v, dtype=float) / np.linalg.norm(v) for v in
         ([1, 0, 0], [0, 1, 0], [0, 0, 1], [0, 0, -1], [1, 1, 0], [1, -2, 3])]
BETAS = [1e-8, 0.3, 0.9, 0.999]


def transformations(seed, n_random=3, with_parity=False):
    """fixed grid of (label, 4x4 matrix, gamma) : axis rotations, random rotations, boosts, boost-then-rotation, parity"""
    rs = np.random.RandomState(1000 + seed)
    out = []
    for ax in range(3):
        for ang in (0.3, math.pi / 2, 2.5, math.pi, -1.1):
            out.append(("rot%s(%.4g)" % ("xyz"[ax], ang), lorentz_rot(rot_axis(ax, ang)), 1.0))
    for k in range(n_random):
        out.append(("rot_random%d" % k, lorentz_rot(random_rot(rs)), 1.0))
    for beta in BETAS:
        for k, d in enumerate(DIRS6):
            out.append(("boost(beta=%g,dir%d)" % (beta, k), lorentz_boost(beta * d), 1.0 / math.sqrt(1 - beta * beta)))
    for k in range(n_random):
        beta = [0.3, 0.6, 0.9][k % 3]
        L = lorentz_rot(random_rot(rs)) @ lorentz_boost(beta * DIRS6[(k + 4) % 6])
        out.append(("boost(beta=%g)+rot_random%d" % (beta, k), L, 1.0 / math.sqrt(1 - beta * beta)))
    if with_parity:
        out.append(("parity", PARITY.copy(), 1.0))
        out.append(("parity*rot_random", PARITY @ lorentz_rot(random_rot(rs)), 1.0))
    return out


# ---------------------------------------------------------------------------------------------
# parameters
# ---------------------------------------------------------------------------------------------


def _u(name, seed, k=0):
    """uniform(0,1) that depends only on (name, seed, k)"""
    h = zlib.crc32(("%s|%d|%d" % (name, seed, k)).encode())
    return np.random.RandomState(h % (2**31 - 1)).uniform()


def random_params(amp, seed, shape=True, polar=True):
    """seeded values BY NAME for every variable of the model.
    masses move by at most +-2 %, widths by a factor in [0.7, 1.4] (stay physical); magnitudes in [0.5, 2], phases in [-pi, pi]."""
    cur = amp.get_params()
    new = {}
    for name, val in cur.items():
        u = _u(name, seed)
        if name.endswith("_mass"):
            new[name] = float(val) * (1 + (0.04 * u - 0.02 if shape else 0.0))
        elif name.endswith("_width"):
            new[name] = float(val) * (math.exp((2 * u - 1) * math.log(1.4)) if shape else 1.0)
        elif name.endswith("r"):
            new[name] = 0.5 + 1.5 * u
        elif name.endswith("i"):
            new[name] = (2 * u - 1) * math.pi
        else:
            raise RuntimeError("unclassified parameter name %r" % name)
    return new


def is_shape_name(name):
    return name.endswith("_mass") or name.endswith("_width")


def trainable_names(amp):
    return list(amp.get_params(trainable_only=True))


def overlay_trainable(amp, base, values, kinds=("shape", "coupling")):
    """copy of `base` in which the TRAINABLE parameters of the given kinds ("shape": masses and widths, "coupling": everything
    else) take their entries of `values`; fixed parameters keep their `base` value.  -> (params, names changed)"""
    new = dict(base)
    changed = []
    for name in trainable_names(amp):
        if ("shape" if is_shape_name(name) else "coupling") in kinds:
            new[name] = values[name]
            changed.append(name)
    return new, changed


def set_params(amp, params):
    amp.set_params({k: v for k, v in params.items()})
    got = amp.get_params()
    for k, v in params.items():
        assert abs(float(got[k]) - float(v)) <= 1e-12 * max(1.0, abs(v)), "parameter %s not stored" % k


def subsets(keys, kmin=1, kmax=None):
    keys = list(keys)
    kmax = len(keys) if kmax is None else kmax
    for k in range(kmin, kmax + 1):
        for c in itertools.combinations(keys, k):
            yield list(c)


# ---------------------------------------------------------------------------------------------
# spinless three-body structures with resonances of chosen spin (C04) and explicit Dalitz-plot events
# ---------------------------------------------------------------------------------------------

MASS_SETS = {
    "ma": (3.0, (0.5, 0.3, 0.14)),
    "mb": (1.8646, (0.4937, 0.13957, 0.13957)),
    "mc": (5.28, (1.8696, 0.4937, 0.13957)),
}


def spinless_struct(mset, spins):
    """register (idempotent) the structure A(0-) -> B C D (all 0-) through R_BC, R_BD, R_CD of spins `spins`, parity (-1)^J
    (the only parity allowed by both vertices).  Particle names carry the mass set and the spins (see nm())."""
    name = "z%s_%d%d%d" % ((mset,) + tuple(spins))
    if name in STRUCTS:
        return name
    m0, (mb, mc, md) = MASS_SETS[mset]
    fm = {"B": mb, "C": mc, "D": md}
    res = {}
    for (r, a, b, s), J in zip((("R_BC", "B", "C", "D"), ("R_BD", "B", "D", "C"), ("R_CD", "C", "D", "B")), spins):
        lo, hi = fm[a] + fm[b], m0 - fm[s]
        res[r] = {"J": int(J), "P": (-1) ** int(J), "m0": 0.5 * (lo + hi), "g0": 0.1}
    STRUCTS[name] = {
        "top": ("A", {"J": 0, "P": -1, "mass": m0}),
        "finals": [("B", {"J": 0, "P": -1, "mass": mb}), ("C", {"J": 0, "P": -1, "mass": mc}), ("D", {"J": 0, "P": -1, "mass": md})],
        "res": res,
        "chains": {"bc": [_d("A", "R_BC", "D"), _d("R_BC", "B", "C")], "bd": [_d("A", "R_BD", "C"), _d("R_BD", "B", "D")],
                   "cd": [_d("A", "R_CD", "B"), _d("R_CD", "C", "D")]},
        "pairs": {"bc": ("R_BC", "B", "C", "D"), "bd": ("R_BD", "B", "D", "C"), "cd": ("R_CD", "C", "D", "B")},
    }
    return name


def two_body_p(M0, m1, m2):
    lam = (M0 * M0 - (m1 + m2) ** 2) * (M0 * M0 - (m1 - m2) ** 2)
    return math.sqrt(max(lam, 0.0)) / (2 * M0)


def dalitz_event(M0, masses, pair, m12, cos_t, rs):
    """one event in the parent rest frame with invariant mass m12 of particles pair=(i,j) and helicity angle cos_t of particle i
    (angle, in the (ij) rest frame, between particle i and the direction of flight of the (ij) system); random orientation."""
    i, j = pair
    k = 3 - i - j
    p = two_body_p(M0, m12, masses[k])
    q = two_body_p(m12, masses[i], masses[j])
    n = random_rot(rs)[:, 2]
    # orthonormal frame with third axis n
    a = np.cross(n, [1.0, 0, 0] if abs(n[0]) < 0.9 else [0, 1.0, 0])
    a /= np.linalg.norm(a)
    b = np.cross(n, a)
    phi = rs.uniform(0, 2 * math.pi)
    sin_t = math.sqrt(max(0.0, 1 - cos_t * cos_t))
    u = cos_t * n + sin_t * (math.cos(phi) * a + math.sin(phi) * b)
    pi_r = np.concatenate([[math.hypot(q, masses[i])], q * u])
    pj_r = np.concatenate([[math.hypot(q, masses[j])], -q * u])
    E12 = math.hypot(p, m12)
    L = lorentz_boost(p * n / E12)
    out = [None, None, None]
    out[i] = L @ pi_r
    out[j] = L @ pj_r
    out[k] = np.concatenate([[math.hypot(p, masses[k])], -p * n])
    return out


def boundary_events(mset, seed):
    """events on a fixed grid near the Dalitz-plot boundary: for each pair, m12 close to both ends of its range and in the middle,
    helicity cosine in {+-1, +-(1-1e-6), 0}"""
    M0, masses = MASS_SETS[mset]
    rs = np.random.RandomState(777 + seed)
    evs = []
    for pair in ((0, 1), (0, 2), (1, 2)):
        k = 3 - pair[0] - pair[1]
        lo, hi = masses[pair[0]] + masses[pair[1]], M0 - masses[k]
        for m12 in (lo + 1e-4, lo + 1e-2 * (hi - lo), 0.5 * (lo + hi), hi - 1e-2 * (hi - lo), hi - 1e-4):
            for c in (1.0, -1.0, 1 - 1e-6, -1 + 1e-6, 0.0):
                evs.append(dalitz_event(M0, masses, pair, m12, c, rs))
    return [np.array([e[i] for e in evs]) for i in range(3)]

"""Shared helpers for the likelihood-level interface contracts (C06, C07, C08, C09).

Everything here is harness code: a tiny 3-body model built from a dict configuration, toy samples generated
in memory with a seeded numpy RNG (no repository code is used to generate kinematics), weights of both signs,
numpy oracles written from the property statements, and finite-difference helpers.

Repository modules are only reached through `ctx.mod(...)` (so that mutated scratch copies are the ones tested).
"""
from __future__ import annotations

import contextlib
import copy
import io
import os
import shutil
import tempfile
import warnings

import numpy as np

MASS = {"A": 4.6, "B": 2.00698, "C": 2.01028, "D": 0.13957}

# ------------------------------------------------------------------------------------------------ kinematics (numpy only)


def _two_body(M, m1, m2):
    return np.sqrt(np.maximum((M**2 - (m1 + m2) ** 2) * (M**2 - (m1 - m2) ** 2), 0.0)) / (2 * M)


def _boost(p, beta):
    b2 = np.sum(beta**2, axis=1)
    g = 1.0 / np.sqrt(1.0 - b2)
    bp = np.sum(beta * p[:, 1:], axis=1)
    g2 = np.where(b2 > 0, (g - 1.0) / np.where(b2 > 0, b2, 1.0), 0.0)
    e = g * (p[:, 0] + bp)
    sp = p[:, 1:] + (g2 * bp)[:, None] * beta + (g * p[:, 0])[:, None] * beta
    return np.concatenate([e[:, None], sp], axis=1)


def _iso(rs, n):
    c = rs.uniform(-1, 1, n)
    ph = rs.uniform(-np.pi, np.pi, n)
    s = np.sqrt(1 - c * c)
    return np.stack([s * np.cos(ph), s * np.sin(ph), c], axis=1)


def gen_three_body(rs, n, shape=None):
    """n valid A -> B C D events in the A rest frame (not flat in phase space: the NLL formula does not need flatness).
    `shape`: optional (centre, width) to concentrate m_BC (toy 'data' that looks like a resonance)."""
    M, m1, m2, m3 = MASS["A"], MASS["B"], MASS["C"], MASS["D"]
    lo, hi = m1 + m2 + 2e-3, M - m3 - 2e-3
    if shape is None:
        m12 = rs.uniform(lo, hi, n)
    else:
        m12 = np.clip(rs.normal(shape[0], shape[1], n), lo, hi)
        flat = rs.uniform(lo, hi, n)
        m12 = np.where(rs.uniform(0, 1, n) < 0.6, m12, flat)
    q = _two_body(M, m12, m3)
    d = _iso(rs, n)
    p3 = np.concatenate([np.sqrt(m3**2 + q**2)[:, None], -q[:, None] * d], axis=1)
    p12 = np.concatenate([np.sqrt(m12**2 + q**2)[:, None], q[:, None] * d], axis=1)
    k = _two_body(m12, m1, m2)
    e = _iso(rs, n)
    p1 = np.concatenate([np.sqrt(m1**2 + k**2)[:, None], k[:, None] * e], axis=1)
    p2 = np.concatenate([np.sqrt(m2**2 + k**2)[:, None], -k[:, None] * e], axis=1)
    beta = p12[:, 1:] / p12[:, 0:1]
    return [_boost(p1, beta), _boost(p2, beta), p3]


# ------------------------------------------------------------------------------------------------ configuration

#: likelihood models selectable by configuration -> (entries of the `data:` section, formula family)
CATALOGUE = {
    "default": ({}, "std"),
    "extended": ({"extended": True}, "ext"),
    "cfit": ({"model": "cfit", "bg_frac": 0.23}, "cfit"),
    "cfit_cached": ({"model": "cfit", "bg_frac": 0.23, "cached_amp": True}, "cfit"),
    "cfit_extended": ({"model": "cfit", "bg_frac": 0.23, "extended": True}, "cfit_ext"),
    "cached_int": ({"cached_int": True}, "std"),
    "cached_amp": ({"cached_amp": True}, "std"),
    "simple": ({"model": "simple"}, "std"),
    "simple_clip": ({"model": "simple_clip"}, "std"),
    "simple_cfit": ({"model": "simple_cfit", "bg_frac": 0.23}, "cfit"),
}
#: models whose docstring excludes floating masses / widths ("Cached Int well cause wrong results when float
#: parameters include mass or width", model/opt_int.py ModelCachedInt / ModelCachedAmp)
NO_FLOAT_MW = ("cached_int", "cached_amp")
#: models that cache per-sample tensors (expensive tf.function tracing per new FCN)
CACHED = ("cached_int", "cached_amp", "cfit_cached")
BG_WEIGHT = 0.3


def tiny_dict(model="default", n_res=2, float_mw="mg", extra_data=None, constrains=None, particle_extra=None, spin=True):
    """dict configuration of A -> B C D with resonances R_BC, R_BD (and R_CD for n_res=3)"""
    data = {"dat_order": ["B", "C", "D"], "random_z": False, "r_boost": False, "bg_weight": BG_WEIGHT}
    data.update(copy.deepcopy(CATALOGUE[model][0]))
    if extra_data:
        data.update(copy.deepcopy(extra_data))
    chains = [["R_BC", "D"], ["R_BD", "C"]] + ([["R_CD", "B"]] if n_res >= 3 else [])
    jb = 1 if spin else 0
    particle = {
        "$top": {"A": {"J": 1, "P": -1, "spins": [-1, 1], "mass": MASS["A"]}},
        "$finals": {"B": {"J": jb, "P": -1, "mass": MASS["B"]}, "C": {"J": 0, "P": -1, "mass": MASS["C"]},
                    "D": {"J": 0, "P": -1, "mass": MASS["D"]}},
        "R_BC": {"J": 1, "Par": 1 if spin else -1, "m0": 4.16, "g0": 0.1},
        "R_BD": {"J": 1, "Par": 1 if spin else -1, "m0": 2.43, "g0": 0.3},
    }
    if n_res >= 3:
        particle["R_CD"] = {"J": 1, "Par": -1, "m0": 2.42, "g0": 0.05}
    if float_mw and model not in NO_FLOAT_MW:
        particle["R_BC"]["float"] = float_mw
    for k, v in (particle_extra or {}).items():
        particle[k].update(copy.deepcopy(v))
    decay = {"A": chains, "R_BC": ["B", "C"], "R_BD": ["B", "D"]}
    if n_res >= 3:
        decay["R_CD"] = ["C", "D"]
    cons = {"particle": None, "decay": {"fix_chain_idx": 0, "fix_chain_val": 1.0}}
    if constrains:
        cons.update(copy.deepcopy(constrains))
    return {"data": data, "decay": decay, "particle": particle, "constrains": cons}


@contextlib.contextmanager
def quiet():
    """the library prints a lot (parameters, timing); keep the worker's stdout clean"""
    import logging

    buf = io.StringIO()
    lg = logging.getLogger("tensorflow")
    old = lg.level
    lg.setLevel(logging.ERROR)  # tf.function retracing warnings of the cached models
    try:
        with warnings.catch_warnings():
            warnings.simplefilter("ignore")
            with contextlib.redirect_stdout(buf):
                yield buf
    finally:
        lg.setLevel(old)


@contextlib.contextmanager
def scratch_dir():
    """temporary working directory (cal_hesse_error writes error_matrix.npy into the cwd); always removed"""
    d = tempfile.mkdtemp(prefix="vt-iface-")
    old = os.getcwd()
    os.chdir(d)
    try:
        yield d
    finally:
        os.chdir(old)
        shutil.rmtree(d, ignore_errors=True)


def seeded_params(config, seed):
    """deterministic starting point for every trainable parameter except masses / widths (kept at their configured values)"""
    rs = np.random.RandomState(seed)
    out = {}
    for name in config.vm.trainable_vars:
        if name.endswith("_mass") or name.endswith("_width"):
            continue
        if name.endswith("r"):
            out[name] = float(rs.uniform(0.6, 1.6))
        else:
            out[name] = float(rs.uniform(-1.4, 1.4))
    return out


def build(ctx, cfg, seed=0):
    """ConfigLoader from a dict + deterministic parameters"""
    cl = ctx.mod("config_loader")
    with quiet():
        config = cl.ConfigLoader(copy.deepcopy(cfg))
        config.get_amplitude()
        config.set_params(seeded_params(config, 1000 + seed))
    return config


def _zero_rows(spec, n, rs):
    """rows that get a weight of exactly 0.0: an int (that many seeded rows) or an explicit list of row numbers"""
    if spec is None:
        return np.zeros(0, dtype=int)
    if isinstance(spec, (int, np.integer)):
        return np.sort(rs.choice(n, int(spec), replace=False))
    idx = np.asarray(list(spec), dtype=int)
    if idx.size and (idx.min() < 0 or idx.max() >= n):
        raise ValueError("zero-weight row outside the sample: %r (n=%d)" % (spec, n))
    return idx


def make_samples(config, seed, n_data=40, n_phsp=60, n_bg=12, weights="mixed", bg_weights=None, phsp_weights="mixed",
                 cfit=False, data_shape=(4.16, 0.06), zero_weights=None):
    """toy data / phase-space / background samples in memory.
    weights: None (unit) | 'mixed' (user data weights of both signs, sum > 0)
    bg_weights: None (library uses -bg_weight) | 'user' (per-event negative weights supplied by the user)
    phsp_weights: None | 'mixed' (positive efficiency-like weights with a few small negative ones)
    zero_weights: None | {"data": k or [rows], "bg": ..., "phsp": ...}: these rows carry a weight of EXACTLY 0.0 (sWeights / selection weights
                  stored as zeros); drawn from a separate seeded stream after everything else, so all other numbers of the sample are the
                  same as without the option.  Zero background weights need bg_weights='user'."""
    rs = np.random.RandomState(seed)
    with quiet():
        data = config.data.cal_angle(gen_three_body(rs, n_data, data_shape))
        phsp = config.data.cal_angle(gen_three_body(rs, n_phsp))
        bg = config.data.cal_angle(gen_three_body(rs, n_bg)) if n_bg else None
    if weights == "mixed":
        w = rs.uniform(0.3, 1.7, n_data)
        neg = rs.uniform(0, 1, n_data) < 0.15
        w = np.where(neg, -rs.uniform(0.05, 0.4, n_data), w)
        data["weight"] = w
    if bg is not None and bg_weights == "user":
        bg["weight"] = -rs.uniform(0.1, 0.5, n_bg)
    if phsp_weights == "mixed":
        v = rs.uniform(0.4, 1.6, n_phsp)
        v = np.where(rs.uniform(0, 1, n_phsp) < 0.05, -0.1 * v, v)
        phsp["weight"] = v
    if cfit:
        # per-event background density and efficiency values (what `data_bg_value` / `data_eff_value` files provide)
        data["bg_value"] = rs.uniform(0.5, 1.5, n_data)
        data["eff_value"] = rs.uniform(0.6, 1.0, n_data)
        phsp["bg_value"] = rs.uniform(0.5, 1.5, n_phsp)
        phsp["eff_value"] = rs.uniform(0.6, 1.0, n_phsp)
    if zero_weights:
        unknown = set(zero_weights) - {"data", "bg", "phsp"}
        if unknown:
            raise ValueError("zero_weights: unknown sample %r" % sorted(unknown))
        rz = np.random.RandomState(seed + 90001)
        for smp, key, n in ((data, "data", n_data), (bg, "bg", n_bg), (phsp, "phsp", n_phsp)):
            rows = _zero_rows(zero_weights.get(key), n, rz)
            if rows.size == 0:
                continue
            if smp is None or (key == "bg" and "weight" not in smp):
                raise ValueError("zero weights requested for a sample without per-event weights: " + key)
            w = np.array(smp["weight"], dtype=float) if "weight" in smp else np.ones(n)
            w[rows] = 0.0
            smp["weight"] = w
    return data, phsp, bg


def npw(sample, n):
    w = sample.get("weight", None)
    return np.ones(n) if w is None else np.asarray(w, dtype=float)


def density(config, sample):
    """the model's own per-event density |A|^2 (the oracle is independent of the NLL code, not of the amplitude code)"""
    return np.asarray(config.get_amplitude()(sample), dtype=float)


# ------------------------------------------------------------------------------------------------ oracles (numpy, from the statement)


def blended_weights(w_data, n_bg, bg_user=None, w_bkg=BG_WEIGHT):
    """data weights followed by background rows entering with weight -w_bkg (or the user's own negative weights)"""
    if n_bg == 0:
        return np.asarray(w_data, dtype=float)
    wb = -w_bkg * np.ones(n_bg) if bg_user is None else np.asarray(bg_user, dtype=float)
    return np.concatenate([np.asarray(w_data, dtype=float), wb])


def nll_std(w, f, v, fy):
    """C06 statement:  -alpha*[sum_i w_i ln f(x_i) - (sum_i w_i) ln(sum_j v_j f(y_j)/sum_j v_j)],  alpha = sum w / sum w^2"""
    alpha = np.sum(w) / np.sum(w * w)
    return -alpha * (np.sum(w * np.log(f)) - np.sum(w) * np.log(np.sum(v * fy) / np.sum(v)))


def nll_ext(w, f, v, fy):
    """extended (BaseModel docstring/DESIGN: the integral term enters linearly, 'lambda term'):
    -alpha*[sum_i w_i ln f(x_i) - (sum_i w_i) * (sum_j v_j f(y_j)/sum_j v_j)]"""
    alpha = np.sum(w) / np.sum(w * w)
    return -alpha * (np.sum(w * np.log(f)) - np.sum(w) * (np.sum(v * fy) / np.sum(v)))


def cfit_prob(f, eff, bgv, v, fy, effy, bgy, frac):
    """model/cfit.py Model_cfit.nll docstring:
       -ln L = -sum w_i ln P(x_i),  P = (1-f_bg) Amp(x)/int Amp + f_bg Bg(x)/int Bg
    (signal = efficiency * |A|^2; the integrals are the weighted phase-space means)"""
    vn = v / np.sum(v)
    i_sig = np.sum(vn * effy * fy)
    i_bg = np.sum(vn * bgy)
    return (1 - frac) * eff * f / i_sig + frac * bgv / i_bg, i_sig, i_bg


def nll_cfit(w, f, eff, bgv, v, fy, effy, bgy, frac):
    alpha = np.sum(w) / np.sum(w * w)
    p, _, _ = cfit_prob(f, eff, bgv, v, fy, effy, bgy, frac)
    return -alpha * np.sum(w * np.log(p))


def nll_cfit_ext(w, f, eff, bgv, v, fy, effy, bgy, frac):
    """model/cfit.py ModelCfitExtended.nll docstring:
       -ln L2 = -ln L - N_data ln(lambda) + lambda,   lambda = 1/(1-f_bg) int Amp dPhi   (N_data = sum of the alpha-scaled weights)"""
    alpha = np.sum(w) / np.sum(w * w)
    p, i_sig, _ = cfit_prob(f, eff, bgv, v, fy, effy, bgy, frac)
    lam = i_sig / (1 - frac)
    return -alpha * np.sum(w * np.log(p)) - alpha * np.sum(w) * np.log(lam) + lam


def gauss_term(params, constr):
    """sum (theta-mu)^2/(2 sigma^2)"""
    return float(sum((float(params[k]) - mu) ** 2 / (2.0 * sg * sg) for k, (mu, sg) in constr.items()))


def oracle_nll(config, family, data, phsp, bg, frac=0.23, w_bkg=BG_WEIGHT):
    """NLL of one data set from the defining formula (no Gaussian term). Also returns the smallest density used
    (the library replaces ln by a quadratic continuation below 1e-6: the formula is only claimed above it)."""
    nd = len(density(config, data))
    f = density(config, data)
    fy = density(config, phsp)
    v = npw(phsp, len(fy))
    if family in ("std", "ext"):
        if bg is not None:
            fb = density(config, bg)
            w = blended_weights(npw(data, nd), len(fb), bg.get("weight", None), w_bkg)
            f = np.concatenate([f, fb])
        else:
            w = npw(data, nd)
        val = nll_std(w, f, v, fy) if family == "std" else nll_ext(w, f, v, fy)
        return float(val), float(np.min(f))
    w = npw(data, nd)
    one = np.ones
    eff = np.asarray(data.get("eff_value", one(nd)), dtype=float)
    bgv = np.asarray(data.get("bg_value", one(nd)), dtype=float)
    effy = np.asarray(phsp.get("eff_value", one(len(fy))), dtype=float)
    bgy = np.asarray(phsp.get("bg_value", one(len(fy))), dtype=float)
    fn = nll_cfit if family == "cfit" else nll_cfit_ext
    p, _, _ = cfit_prob(f, eff, bgv, v, fy, effy, bgy, frac)
    return float(fn(w, f, eff, bgv, v, fy, effy, bgy, frac)), float(np.min(p))


# ------------------------------------------------------------------------------------------------ minimiser interception (C08)


def _limit(v):
    """one limit of a bound as handed to a minimiser: None / +-inf / nan mean 'no limit'"""
    if v is None:
        return None
    v = float(v)
    return None if (np.isinf(v) or np.isnan(v)) else v


def _bounds_list(b):
    """scipy's `bounds` argument (sequence of (lo, hi) or a scipy.optimize.Bounds object) -> [(lo|None, hi|None)] or None"""
    if b is None:
        return None
    if hasattr(b, "lb") and hasattr(b, "ub"):
        lb, ub = np.atleast_1d(b.lb), np.atleast_1d(b.ub)
        return [(_limit(lo), _limit(hi)) for lo, hi in zip(lb, ub)]
    return [(_limit(p[0]), _limit(p[1])) for p in (tuple(q) for q in b)]


@contextlib.contextmanager
def spy_minimize(fitmod, vm):
    """Intercept `scipy.optimize.minimize` AS IMPORTED BY the repository's fit module (the module attribute `fit.minimize`), in this
    process only, delegating every call unchanged to the real function.  Each call is recorded as
        {"method", "names": trainable parameter names at the time of the call, "bounds": explicit `bounds` argument (normalised) or None,
         "transforms": {name: (lower, upper)} of the variable transformations active in vm.bnd_dic at the time of the call}
    so that a contract can state which limits actually reach the minimiser."""
    import inspect

    real = fitmod.minimize
    sig = inspect.signature(real)
    calls = []

    def spy(*args, **kwargs):
        rec = {"method": None, "names": list(vm.trainable_vars), "bounds": None, "transforms": {}, "unreadable": None}
        try:
            ba = sig.bind(*args, **kwargs).arguments
            rec["method"] = ba.get("method")
            rec["bounds"] = _bounds_list(ba.get("bounds"))
            rec["transforms"] = {str(k): (_limit(getattr(v, "lower", None)), _limit(getattr(v, "upper", None))) for k, v in dict(vm.bnd_dic).items()}
        except Exception as ex:  # noqa: BLE001 - the recorder must never change what the minimiser sees
            rec["unreadable"] = repr(ex)
        calls.append(rec)
        return real(*args, **kwargs)

    fitmod.minimize = spy
    try:
        yield calls
    finally:
        fitmod.minimize = real


def limits_reaching_minimiser(call, name):
    """(explicit, transform): the (lo, hi) pair handed over for parameter `name` in one recorded call, by either mechanism (None if not used)"""
    explicit = None
    if call["bounds"] is not None and name in call["names"]:
        i = call["names"].index(name)
        if i < len(call["bounds"]):
            explicit = call["bounds"][i]
    return explicit, call["transforms"].get(name)


# ------------------------------------------------------------------------------------------------ exact linear algebra reference (C09)


def exact_inverse(h, dps=60):
    """inverse of the float64 matrix h (read as exact rationals) in `dps`-digit arithmetic, rounded back to float64.
    With dps = 60 the reference is correct to ~1e-16 relative for condition numbers up to ~1e40: independent of numpy.linalg."""
    import mpmath

    h = np.asarray(h, dtype=float)
    with mpmath.workdps(dps):
        m = mpmath.matrix(h.tolist())
        inv = m ** -1
        return np.array([[float(inv[i, j]) for j in range(h.shape[1])] for i in range(h.shape[0])], dtype=float)


def random_orthogonal(rs, n):
    """seeded Haar-like orthogonal matrix (QR of a Gaussian matrix, column signs fixed)"""
    q, r = np.linalg.qr(rs.normal(size=(n, n)))
    return q * np.sign(np.diag(r))


def spectrum_hessian(rs, eigenvalues):
    """symmetric positive-definite H = Q diag(eigenvalues) Q^T with a seeded random orthogonal basis"""
    lam = np.asarray(eigenvalues, dtype=float)
    q = random_orthogonal(rs, len(lam))
    h = (q * lam) @ q.T
    return 0.5 * (h + h.T)


def scaled_hessian(rs, sigmas, corr_spectrum=(0.5, 1.5)):
    """H = S^-1 C^-1 S^-1: parameters known to very different precisions sigma_i (a mass known to 1e-5 next to couplings known to 1-10)
    with a well-conditioned correlation-like matrix C (random orthogonal basis, eigenvalues in corr_spectrum)"""
    s = np.asarray(sigmas, dtype=float)
    n = len(s)
    q = random_orthogonal(rs, n)
    c_inv = (q * (1.0 / rs.uniform(corr_spectrum[0], corr_spectrum[1], n))) @ q.T
    h = c_inv / np.outer(s, s)
    return 0.5 * (h + h.T)


class QuadraticFCN:
    """stand-in likelihood with an exactly known Hessian: NLL(x) = 1/2 (x-x0)^T H (x-x0) over the trainable parameters of `vm`
    (what cal_hesse_error / cal_hesse_correct / get_params_error need from an FCN: vm, get_params, __call__, nll_grad, nll_grad_hessian)"""

    def __init__(self, vm, hess, tf):
        self.vm = vm
        self.hess = np.asarray(hess, dtype=float)
        self.x0 = np.array(vm.get_all_val(), dtype=float)
        self._tf = tf
        self.n_hessian_calls = 0

    def get_params(self, trainable_only=False):
        return self.vm.get_all_dic(trainable_only)

    def _x(self, x):
        if isinstance(x, dict):
            self.vm.set_all(x)
            return np.array(self.vm.get_all_val(), dtype=float)
        return np.asarray(x, dtype=float)

    def __call__(self, x={}):  # noqa: B006 - signature of the real FCN
        d = self._x(x) - self.x0
        return float(0.5 * d @ self.hess @ d)

    def nll_grad(self, x={}):  # noqa: B006
        d = self._x(x) - self.x0
        return self._tf.constant(0.5 * d @ self.hess @ d), self._tf.constant(self.hess @ d)

    def nll_grad_hessian(self, x={}, batch=None):  # noqa: B006
        self.n_hessian_calls += 1
        d = self._x(x) - self.x0
        return self._tf.constant(0.5 * d @ self.hess @ d), self._tf.constant(self.hess @ d), self._tf.constant(self.hess)


# ------------------------------------------------------------------------------------------------ finite differences


def fd_value_and_grad(fg, x, steps=(1e-4, 5e-5)):
    """central differences of value and gradient returned by fg(x) -> (value, grad) at two steps and their
    Richardson combination  D = (4 D(h/2) - D(h)) / 3  (error O(h^4)).
    returns dict(step -> (dvalue[n], dgrad[n,n])), richardson (dvalue, dgrad)"""
    x = np.asarray(x, dtype=float)
    n = len(x)
    out = {}
    for h in steps:
        dv = np.zeros(n)
        dg = np.zeros((n, n))
        for i in range(n):
            xp = x.copy()
            xp[i] += h
            xm = x.copy()
            xm[i] -= h
            vp, gp = fg(xp)
            vm, gm = fg(xm)
            dv[i] = (float(vp) - float(vm)) / (2 * h)
            dg[i] = (np.asarray(gp, dtype=float) - np.asarray(gm, dtype=float)) / (2 * h)
        out[h] = (dv, dg)
    h0, h1 = steps
    r = (h0 / h1) ** 2
    rich = ((r * out[h1][0] - out[h0][0]) / (r - 1), (r * out[h1][1] - out[h0][1]) / (r - 1))
    return out, rich


def close(a, b, rtol, atol):
    a = np.asarray(a, dtype=float)
    b = np.asarray(b, dtype=float)
    return bool(np.all(np.isfinite(a)) and np.all(np.isfinite(b)) and np.all(np.abs(a - b) <= atol + rtol * np.abs(b)))


def worst(a, b):
    a = np.asarray(a, dtype=float)
    b = np.asarray(b, dtype=float)
    if a.shape != b.shape:
        return float("inf")
    if a.size == 0:
        return 0.0
    return float(np.max(np.abs(a - b) / (1e-300 + np.maximum(np.abs(b), 1e-12))))


def fl(x):
    """JSON-able float / list"""
    a = np.asarray(x, dtype=float)
    return float(a) if a.shape == () else a.tolist()

"""helpers for bounded contracts at the public interface of tf_pwa (ConfigLoader -> amplitude -> likelihood)"""

"""Fake `tensorflow` for shadow symbolic execution (Engine S, DESIGN 2.1).

Tensors are numpy object arrays whose elements are terms (terms.T) or complex pairs (terms.C).
The op models below are the *assumed contracts* on the TF ops (A-OPS); they are cross-checked
differentially against real TF by the harness (guard 2.8.4).
"""
from __future__ import annotations

import math
import sys
import types

import numpy as real_np

from . import terms as tm

np = real_np


class NotModelled(Exception):
    pass


class DType:
    def __init__(self, name, kind):
        self.name = name
        self.kind = kind  # 'f','c','i','b'

    @property
    def is_complex(self):
        return self.kind == "c"

    @property
    def is_floating(self):
        return self.kind == "f"

    @property
    def is_integer(self):
        return self.kind == "i"

    @property
    def real_dtype(self):
        return float64 if self.kind == "c" else self

    def __repr__(self):
        return "tf." + self.name

    def __eq__(self, o):
        if isinstance(o, DType):
            return self.kind == o.kind
        if isinstance(o, str):
            return as_dtype(o).kind == self.kind
        return NotImplemented

    def __hash__(self):
        return hash(self.kind)

    @property
    def as_numpy_dtype(self):
        return {"f": real_np.float64, "c": real_np.complex128, "i": real_np.int64, "b": real_np.bool_}[self.kind]


float64 = DType("float64", "f")
float32 = DType("float32", "f")
complex128 = DType("complex128", "c")
complex64 = DType("complex64", "c")
int32 = DType("int32", "i")
int64 = DType("int64", "i")
bool_ = DType("bool", "b")


def as_dtype(d):
    if isinstance(d, DType):
        return d
    s = str(getattr(d, "__name__", d))
    if "complex" in s:
        return complex128
    if "int" in s:
        return int64
    if "bool" in s:
        return bool_
    return float64


def _lift_elem(x):
    if isinstance(x, (tm.T, tm.C)):
        return x
    if isinstance(x, (complex, real_np.complexfloating)):
        return tm.cx(complex(x))
    r = tm.lift(x)
    if r is NotImplemented:
        raise TypeError("cannot lift %r into a symbolic tensor" % (x,))
    return r


_vlift = real_np.frompyfunc(_lift_elem, 1, 1)


def _arr(x):
    """anything -> numpy object array of terms"""
    if isinstance(x, STensor):
        return x.a
    if isinstance(x, Variable):
        return x.value_.a
    if isinstance(x, (tm.T, tm.C)):
        r = real_np.empty((), dtype=object)
        r[()] = x
        return r
    if isinstance(x, (list, tuple)):
        if len(x) == 0:
            return real_np.empty((0,), dtype=object)
        parts = [_arr(i) for i in x]
        parts = real_np.broadcast_arrays(*parts) if len({p.shape for p in parts}) > 1 else parts
        out = real_np.empty((len(parts),) + parts[0].shape, dtype=object)
        for i, p in enumerate(parts):
            out[i] = p
        return out
    a = real_np.asarray(x)
    if a.dtype == object:
        r = _vlift(a)
        if not isinstance(r, real_np.ndarray):
            rr = real_np.empty((), dtype=object)
            rr[()] = r
            r = rr
        return r
    out = real_np.empty(a.shape, dtype=object)
    flat = a.reshape(-1)
    of = out.reshape(-1)
    for i in range(flat.size):
        of[i] = _lift_elem(flat[i].item())
    return out


def _wrap(a):
    if not isinstance(a, real_np.ndarray):
        r = real_np.empty((), dtype=object)
        r[()] = a
        a = r
    return STensor(a)


BROADCAST_LIMIT_EXCEEDED = []


def broadcast_blocks(sa, sb):
    """number of blocks of adjacent dimensions with the same broadcast direction after right-alignment (as tensorflow::BCast collapses
    them); dimension pairs (1, 1) belong to any block"""
    n = max(len(sa), len(sb))
    sa = (1,) * (n - len(sa)) + tuple(sa)
    sb = (1,) * (n - len(sb)) + tuple(sb)
    cnt, prev = 0, None
    for a, b in zip(sa, sb):
        if a == 1 and b == 1:
            continue
        state = 0 if a == b else (1 if a == 1 else 2)
        if state != prev:
            cnt += 1
            prev = state
    return cnt


class STensor:
    __array_priority__ = 1000

    def __array_ufunc__(self, ufunc, method, *inputs, **kw):
        if method != "__call__" or kw.get("out") is not None:
            return NotImplemented
        f = _UFUNC_MAP.get(ufunc.__name__)
        if f is None:
            raise NotModelled("numpy ufunc %s on a symbolic tensor" % ufunc.__name__)
        return f(*inputs)

    def __init__(self, a, dtype=None):
        if not (isinstance(a, real_np.ndarray) and a.dtype == object):
            a = _arr(a)
        self.a = a
        self._dtype = dtype

    # ---- introspection
    @property
    def shape(self):
        return TensorShape(self.a.shape)

    @property
    def ndim(self):
        return self.a.ndim

    @property
    def dtype(self):
        if self._dtype is not None:
            return self._dtype
        k = "f"
        for e in self.a.reshape(-1)[:64]:
            if isinstance(e, tm.C):
                k = "c"
                break
            if isinstance(e, tm.T) and e.sort == "B":
                k = "b"
        return {"f": float64, "c": complex128, "b": bool_}[k]

    def get_shape(self):
        return self.shape

    def numpy(self):
        # concrete tensors only
        flat = self.a.reshape(-1)
        out = real_np.empty(flat.shape, dtype=complex if self.dtype.is_complex else float)
        for i, e in enumerate(flat):
            if isinstance(e, tm.C):
                out[i] = complex(float(e.re), float(e.im))
            else:
                out[i] = float(e)
        return out.reshape(self.a.shape)

    def __array__(self, dtype=None, copy=None):
        return self.a

    def __len__(self):
        return self.a.shape[0]

    def __iter__(self):
        for i in range(self.a.shape[0]):
            yield _wrap(self.a[i])

    def __getitem__(self, idx):
        idx = _conc_index(idx)
        return _wrap(self.a[idx])

    def __bool__(self):
        if self.a.size != 1:
            raise ValueError("truth value of a symbolic tensor with more than one element")
        return bool(self.a.reshape(-1)[0])

    def __float__(self):
        return float(self.a.reshape(-1)[0])

    def __int__(self):
        return int(self.a.reshape(-1)[0])

    def __index__(self):
        return int(self.a.reshape(-1)[0])

    def __hash__(self):
        return id(self)

    def ref(self):
        return _Ref(self)

    def __repr__(self):
        return "STensor(shape=%s, %s)" % (self.a.shape, self.a.reshape(-1)[:2])

    # ---- arithmetic
    def _bin(self, o, f, rev=False):
        if isinstance(o, dict):
            return NotImplemented
        if not isinstance(o, (STensor, Variable, tm.T, tm.C, int, float, complex, list, tuple, real_np.ndarray, real_np.generic)):
            return NotImplemented  # let the other operand's reflected method handle it (e.g. NumberError.__rpow__)
        b = _arr(o)
        x, y = (b, self.a) if rev else (self.a, b)
        nblk = broadcast_blocks(x.shape, y.shape)
        if nblk > 5:
            # TensorFlow's element-wise kernels (BCast) support at most 5 collapsed broadcast blocks; eager mode raises, graph mode fails
            # only when the graph runs.  Recorded, so that a contract can demand that the code never builds such a product.
            BROADCAST_LIMIT_EXCEEDED.append((tuple(x.shape), tuple(y.shape), nblk))
        return _wrap(f(x, y))

    def __add__(self, o):
        return self._bin(o, real_np.add)

    def __radd__(self, o):
        return self._bin(o, real_np.add, True)

    def __sub__(self, o):
        return self._bin(o, real_np.subtract)

    def __rsub__(self, o):
        return self._bin(o, real_np.subtract, True)

    def __mul__(self, o):
        return self._bin(o, real_np.multiply)

    def __rmul__(self, o):
        return self._bin(o, real_np.multiply, True)

    def __truediv__(self, o):
        return self._bin(o, real_np.true_divide)

    def __rtruediv__(self, o):
        return self._bin(o, real_np.true_divide, True)

    def __neg__(self):
        return _wrap(real_np.negative(self.a))

    def __pos__(self):
        return self

    def __abs__(self):
        return abs_(self)

    def __pow__(self, o):
        if not isinstance(o, (STensor, Variable, tm.T, tm.C, int, float, complex, list, tuple, real_np.ndarray, real_np.generic)):
            return NotImplemented
        return pow_(self, o)

    def __rpow__(self, o):
        return pow_(o, self)

    def __matmul__(self, o):
        return matmul(self, o)

    def __mod__(self, o):
        return floormod(self, o)

    def __lt__(self, o):
        return self._bin(o, _vlt)

    def __le__(self, o):
        return self._bin(o, _vle)

    def __gt__(self, o):
        return self._bin(o, _vlt, True)

    def __ge__(self, o):
        return self._bin(o, _vle, True)

    def __eq__(self, o):
        if o is None:
            return False
        return self._bin(o, _veq)

    def __ne__(self, o):
        if o is None:
            return True
        return logical_not(self.__eq__(o))

    def __and__(self, o):
        return self._bin(o, _vand)

    def __rand__(self, o):
        return self._bin(o, _vand, True)

    def __or__(self, o):
        return self._bin(o, _vor)

    def __ror__(self, o):
        return self._bin(o, _vor, True)

    def __invert__(self):
        return logical_not(self)


Tensor = STensor


class _Ref:
    def __init__(self, t):
        self.t = t

    def __hash__(self):
        return id(self.t)

    def __eq__(self, o):
        return isinstance(o, _Ref) and o.t is self.t

    def deref(self):
        return self.t


class TensorShape(tuple):
    def as_list(self):
        return list(self)

    @property
    def rank(self):
        return len(self)

    @property
    def ndims(self):
        return len(self)


def _conc_index(idx):
    if isinstance(idx, tuple):
        return tuple(_conc_index(i) for i in idx)
    if isinstance(idx, (STensor, tm.T)):
        return int(idx)
    return idx


_vlt = real_np.frompyfunc(lambda a, b: tm.lt(tm._l(a), tm._l(b)), 2, 1)
_vle = real_np.frompyfunc(lambda a, b: tm.le(tm._l(a), tm._l(b)), 2, 1)


def _eq_e(a, b):
    if isinstance(a, tm.C) or isinstance(b, tm.C):
        return tm.cx(a).sym_eq(b)
    return tm.eq(tm._l(a), tm._l(b))


_veq = real_np.frompyfunc(_eq_e, 2, 1)
_vand = real_np.frompyfunc(lambda a, b: tm.and_(tm._l(a), tm._l(b)), 2, 1)
_vor = real_np.frompyfunc(lambda a, b: tm.or_(tm._l(a), tm._l(b)), 2, 1)
_vnot = real_np.frompyfunc(lambda a: tm.not_(tm._l(a)), 1, 1)


def _unary(fname):
    def g(e):
        if isinstance(e, tm.C):
            if fname == "exp":
                m = tm.fn("exp", e.re)
                return tm.C(tm.mul(m, tm.fn("cos", e.im)), tm.mul(m, tm.fn("sin", e.im)))
            raise NotModelled("%s of a complex argument" % fname)
        return tm.fn(fname, e)

    uf = real_np.frompyfunc(g, 1, 1)

    def op(x, name=None):
        return _wrap(uf(_arr(x)))

    op.__name__ = fname
    return op


def _sqrt_e(e):
    if isinstance(e, tm.C):
        # principal branch: sqrt(z) = sqrt((|z|+re)/2) + i sgn(im) sqrt((|z|-re)/2)
        if e.im is tm.ZERO:
            pos = tm.le(tm.ZERO, e.re)
            return tm.C(tm.ite(pos, tm.sqrt_(tm.abs_(e.re)), tm.ZERO), tm.ite(pos, tm.ZERO, tm.sqrt_(tm.abs_(e.re))))
        mod = abs(e)
        half = tm.const(tm.Fraction(1, 2))
        re = tm.sqrt_(tm.mul(half, tm.add(mod, e.re)))
        im = tm.sqrt_(tm.mul(half, tm.add(mod, tm.neg(e.re))))
        return tm.C(re, tm.ite(tm.le(tm.ZERO, e.im), im, tm.neg(im)))
    return tm.sqrt_(e)


_vsqrt = real_np.frompyfunc(_sqrt_e, 1, 1)


def sqrt(x, name=None):
    return _wrap(_vsqrt(_arr(x)))


def rsqrt(x, name=None):
    return 1.0 / sqrt(x)


_vabs = real_np.frompyfunc(lambda e: abs(e), 1, 1)


def abs_(x, name=None):
    return _wrap(_vabs(_arr(x)))


exp = _unary("exp")
log = _unary("log")
sin = _unary("sin")
cos = _unary("cos")
tan = _unary("tan")
acos = _unary("acos")
asin = _unary("asin")
atan = _unary("atan")
tanh = _unary("tanh")
cosh = _unary("cosh")
sinh = _unary("sinh")
acosh = _unary("acosh")
floor = _unary("floor")

_vatan2 = real_np.frompyfunc(lambda y, x: tm.fn("atan2", y, x), 2, 1)


def atan2(y, x, name=None):
    return _wrap(_vatan2(_arr(y), _arr(x)))


def _pow_e(a, b):
    if isinstance(b, tm.C):
        raise NotModelled("complex exponent")
    return a**b


_vpow = real_np.frompyfunc(_pow_e, 2, 1)


def pow_(x, y, name=None):
    if isinstance(y, (int, float)) and not isinstance(y, bool):
        a = _arr(x)
        f = real_np.frompyfunc(lambda e: e**y, 1, 1)
        return _wrap(f(a))
    return _wrap(_vpow(_arr(x), _arr(y)))


def square(x, name=None):
    return x * x if isinstance(x, STensor) else convert_to_tensor(x) * convert_to_tensor(x)


def sign(x):
    f = real_np.frompyfunc(lambda e: tm.ite(tm.lt(tm.ZERO, e), tm.ONE, tm.ite(tm.lt(e, tm.ZERO), tm.const(-1), tm.ZERO)), 1, 1)
    return _wrap(f(_arr(x)))


def maximum(x, y, name=None):
    f = real_np.frompyfunc(lambda a, b: tm.ite(tm.le(tm._l(b), tm._l(a)), a, b), 2, 1)
    return _wrap(f(_arr(x), _arr(y)))


def minimum(x, y, name=None):
    f = real_np.frompyfunc(lambda a, b: tm.ite(tm.le(tm._l(a), tm._l(b)), a, b), 2, 1)
    return _wrap(f(_arr(x), _arr(y)))


def clip_by_value(x, lo, hi, name=None):
    return minimum(maximum(x, lo), hi)


def floormod(x, y):
    f = real_np.frompyfunc(lambda a, b: tm.fn("mod", a, b), 2, 1)
    return _wrap(f(_arr(x), _arr(y)))


def logical_not(x, name=None):
    return _wrap(_vnot(_arr(x)))


def logical_and(x, y, name=None):
    return _wrap(_vand(*real_np.broadcast_arrays(_arr(x), _arr(y))))


def logical_or(x, y, name=None):
    return _wrap(_vor(*real_np.broadcast_arrays(_arr(x), _arr(y))))


def where(cond, x=None, y=None, name=None):
    if x is None:
        raise NotModelled("tf.where with one argument")
    c, a, b = real_np.broadcast_arrays(_arr(cond), _arr(x), _arr(y))
    f = real_np.frompyfunc(lambda cc, aa, bb: tm.ite(tm._l(cc), aa, bb), 3, 1)
    return _wrap(f(c, a, b))


def _norm_axis(axis, nd):
    if axis is None:
        return None
    if isinstance(axis, (list, tuple)):
        return tuple(int(a) % nd for a in axis)
    return int(axis) % nd


def _reduce(x, axis, keepdims, f, init):
    a = _arr(x)
    ax = _norm_axis(axis, max(a.ndim, 1))
    if a.ndim == 0:
        return _wrap(a)
    if ax is None:
        ax = tuple(range(a.ndim))
    if isinstance(ax, int):
        ax = (ax,)
    # move reduced axes last and fold
    keep = [i for i in range(a.ndim) if i not in ax]
    b = real_np.transpose(a, keep + list(ax))
    kshape = b.shape[: len(keep)]
    b = b.reshape(kshape + (-1,))
    out = real_np.empty(kshape, dtype=object)
    for idx in real_np.ndindex(*kshape):
        acc = init
        for e in b[idx]:
            acc = e if acc is None else f(acc, e)
        out[idx] = acc
    if keepdims:
        shp = [1 if i in ax else a.shape[i] for i in range(a.ndim)]
        out = out.reshape(shp)
    return _wrap(out)


def reduce_sum(x, axis=None, keepdims=False, name=None):
    return _reduce(x, axis, keepdims, lambda p, q: p + q, tm.ZERO)


def reduce_prod(x, axis=None, keepdims=False, name=None):
    return _reduce(x, axis, keepdims, lambda p, q: p * q, tm.ONE)


def reduce_max(x, axis=None, keepdims=False, name=None):
    return _reduce(x, axis, keepdims, lambda p, q: tm.ite(tm.le(q, p), p, q), None)


def reduce_min(x, axis=None, keepdims=False, name=None):
    return _reduce(x, axis, keepdims, lambda p, q: tm.ite(tm.le(p, q), p, q), None)


def reduce_mean(x, axis=None, keepdims=False, name=None):
    a = _arr(x)
    s = reduce_sum(x, axis, keepdims)
    n = a.size // max(s.a.size, 1)
    return s / n


def reduce_all(x, axis=None, keepdims=False, name=None):
    return _reduce(x, axis, keepdims, lambda p, q: tm.and_(tm._l(p), tm._l(q)), tm.TRUE)


def reduce_any(x, axis=None, keepdims=False, name=None):
    return _reduce(x, axis, keepdims, lambda p, q: tm.or_(tm._l(p), tm._l(q)), tm.FALSE)


def norm(x, ord="euclidean", axis=None, keepdims=False, name=None):
    return sqrt(reduce_sum(abs_(x) * abs_(x) if convert_to_tensor(x).dtype.is_complex else x * x, axis=axis, keepdims=keepdims))


def normalize(x, ord="euclidean", axis=None, name=None):
    x = convert_to_tensor(x)
    n = norm(x, axis=axis, keepdims=True)
    return x / n, n


def cross(a, b, name=None):
    a, b = real_np.broadcast_arrays(_arr(a), _arr(b))
    out = real_np.empty(a.shape, dtype=object)
    out[..., 0] = a[..., 1] * b[..., 2] - a[..., 2] * b[..., 1]
    out[..., 1] = a[..., 2] * b[..., 0] - a[..., 0] * b[..., 2]
    out[..., 2] = a[..., 0] * b[..., 1] - a[..., 1] * b[..., 0]
    return _wrap(out)


def matmul(a, b, transpose_a=False, transpose_b=False, adjoint_a=False, adjoint_b=False, name=None, **kw):
    if kw:
        raise NotModelled("tf.matmul(%s)" % sorted(kw))
    if adjoint_a:
        a, transpose_a = conj(a), True
    if adjoint_b:
        b, transpose_b = conj(b), True
    a, b = _arr(a), _arr(b)
    if transpose_a:
        a = real_np.swapaxes(a, -1, -2)
    if transpose_b:
        b = real_np.swapaxes(b, -1, -2)
    return _wrap(_obj_einsum("...ij,...jk->...ik", a, b))


def matvec(a, b, transpose_a=False, name=None, **kw):
    if kw:
        raise NotModelled("tf.linalg.matvec(%s)" % sorted(kw))
    a, b = _arr(a), _arr(b)
    if transpose_a:
        a = real_np.swapaxes(a, -1, -2)
    return _wrap(_obj_einsum("...ij,...j->...i", a, b))


def _obj_einsum(expr, *ops):
    """einsum over object arrays (explicit loops; sizes are small)"""
    ins, out = expr.replace(" ", "").split("->")
    ins = ins.split(",")
    ops = [_arr(o) for o in ops]
    # expand ellipsis
    nell = 0
    for s, o in zip(ins, ops):
        if "..." in s:
            nell = max(nell, o.ndim - (len(s) - 3))
    ell = "".join(chr(ord("A") + i) for i in range(nell))
    ins2 = []
    for s, o in zip(ins, ops):
        if "..." in s:
            k = o.ndim - (len(s) - 3)
            s = s.replace("...", ell[nell - k :])
        ins2.append(s)
    out = out.replace("...", ell)
    sizes = {}
    for s, o in zip(ins2, ops):
        assert len(s) == o.ndim, (s, o.shape)
        for ch, n in zip(s, o.shape):
            if sizes.get(ch, 1) == 1:
                sizes[ch] = n
            elif n != 1 and n != sizes[ch]:
                raise ValueError("einsum size mismatch for %s" % ch)
    summed = [ch for ch in sizes if ch not in out]
    res = real_np.empty(tuple(sizes[ch] for ch in out), dtype=object)
    for oidx in real_np.ndindex(*res.shape):
        env = dict(zip(out, oidx))
        acc = tm.ZERO
        for sidx in real_np.ndindex(*[sizes[ch] for ch in summed]):
            env.update(zip(summed, sidx))
            p = None
            for s, o in zip(ins2, ops):
                e = o[tuple(env[ch] if o.shape[i] != 1 else 0 for i, ch in enumerate(s))]
                p = e if p is None else p * e
            acc = acc + p
        res[oidx] = acc
    return res


def einsum(expr, *ops, **kw):
    return _wrap(_obj_einsum(expr, *ops))


def tensordot(a, b, axes, name=None):
    a, b = _arr(a), _arr(b)
    if isinstance(axes, int):
        axes = (list(range(a.ndim - axes, a.ndim)), list(range(axes)))
    ax_a, ax_b = axes
    if isinstance(ax_a, int):
        ax_a, ax_b = [ax_a], [ax_b]
    letters = iter("abcdefghijklmnopqrstuvwxyz")
    sa = [next(letters) for _ in range(a.ndim)]
    sb = [next(letters) for _ in range(b.ndim)]
    for i, j in zip(ax_a, ax_b):
        sb[j] = sa[i]
    out = [c for i, c in enumerate(sa) if i not in [x % a.ndim for x in ax_a]] + [c for j, c in enumerate(sb) if j not in [x % b.ndim for x in ax_b]]
    return _wrap(_obj_einsum("%s,%s->%s" % ("".join(sa), "".join(sb), "".join(out)), a, b))


# ---- construction / shape ops


def convert_to_tensor(x, dtype=None, name=None, **kw):
    if isinstance(x, STensor):
        return cast(x, dtype) if dtype is not None else x
    if isinstance(x, Variable):
        return x.value_
    t = STensor(_arr(x))
    return cast(t, dtype) if dtype is not None else t


def constant(x, dtype=None, shape=None, name=None):
    t = convert_to_tensor(x, dtype)
    if shape is not None:
        t = broadcast_to(t, shape)
    return t


identity = lambda x, name=None: convert_to_tensor(x)
stop_gradient = lambda x, name=None: convert_to_tensor(x)


def _cast_e(kind):
    def g(e):
        if kind == "c":
            return e if isinstance(e, tm.C) else tm.C(e, tm.ZERO)
        if isinstance(e, tm.C):
            return e.re
        if kind == "f" and isinstance(e, tm.T) and e.sort == "B":
            return tm.ite(e, tm.ONE, tm.ZERO)
        if kind == "i" and isinstance(e, tm.T) and e.sort == "B":
            return tm.ite(e, tm.ONE, tm.ZERO)
        if kind == "i" and isinstance(e, tm.T) and e.op == "c":
            q = e.args[0]
            return tm.const(int(q) if q >= 0 else -int(-q))
        return e

    return real_np.frompyfunc(g, 1, 1)


def cast(x, dtype, name=None):
    d = as_dtype(dtype)
    a = _arr(x)
    r = _cast_e(d.kind)(a)
    t = _wrap(r)
    t._dtype = d
    return t


def zeros(shape, dtype=None, name=None):
    shape = _shape_arg(shape)
    a = real_np.empty(shape, dtype=object)
    a.fill(tm.ZERO)
    return cast(STensor(a), dtype or float64)


def ones(shape, dtype=None, name=None):
    shape = _shape_arg(shape)
    a = real_np.empty(shape, dtype=object)
    a.fill(tm.ONE)
    return cast(STensor(a), dtype or float64)


def _shape_arg(shape):
    if isinstance(shape, STensor):
        return tuple(int(i) for i in shape.a.reshape(-1))
    if isinstance(shape, int):
        return (shape,)
    return tuple(int(i) for i in shape)


def zeros_like(x, dtype=None, name=None):
    x = convert_to_tensor(x)
    return zeros(x.a.shape, dtype or x.dtype)


def ones_like(x, dtype=None, name=None):
    x = convert_to_tensor(x)
    return ones(x.a.shape, dtype or x.dtype)


def fill(dims, value):
    return ones(dims) * value


def eye(n, m=None, batch_shape=None, dtype=None, name=None):
    a = real_np.empty((n, m or n), dtype=object)
    for i in range(n):
        for j in range(m or n):
            a[i, j] = tm.ONE if i == j else tm.ZERO
    return cast(STensor(a), dtype or float64)


def stack(xs, axis=0, name=None):
    arrs = real_np.broadcast_arrays(*[_arr(x) for x in xs])
    return _wrap(real_np.stack(arrs, axis=axis))


def unstack(x, num=None, axis=0, name=None):
    a = _arr(x)
    return [_wrap(real_np.take(a, i, axis=axis)) for i in range(a.shape[axis])]


def concat(xs, axis, name=None):
    arrs = [_arr(x) for x in xs]
    return _wrap(real_np.concatenate(arrs, axis=axis))


def expand_dims(x, axis, name=None):
    return _wrap(real_np.expand_dims(_arr(x), axis))


def squeeze(x, axis=None, name=None):
    return _wrap(real_np.squeeze(_arr(x), axis=axis if axis is None else tuple(axis) if isinstance(axis, (list, tuple)) else axis))


def reshape(x, shape, name=None):
    return _wrap(real_np.reshape(_arr(x), _shape_arg(shape)))


def transpose(x, perm=None, conjugate=False, name=None):
    r = _wrap(real_np.transpose(_arr(x), perm))
    return conj(r) if conjugate else r


def broadcast_to(x, shape, name=None):
    return _wrap(real_np.array(real_np.broadcast_to(_arr(x), _shape_arg(shape))))


def tile(x, multiples, name=None):
    return _wrap(real_np.tile(_arr(x), _shape_arg(multiples)))


def shape(x, out_type=None, name=None):
    return TensorShape(_arr(x).shape)


def size(x, name=None):
    return _arr(x).size


def rank(x, name=None):
    return _arr(x).ndim


def gather(params, indices, axis=None, batch_dims=0, name=None, validate_indices=None):
    a = _arr(params)
    idx = real_np.asarray(indices.numpy() if isinstance(indices, STensor) else indices).astype(int)
    return _wrap(real_np.take(a, idx, axis=0 if axis is None else axis))


def gather_nd(params, indices, batch_dims=0, name=None):
    a = _arr(params)
    idx = real_np.asarray(indices.numpy() if isinstance(indices, STensor) else indices).astype(int)
    out = real_np.empty(idx.shape[:-1] + a.shape[idx.shape[-1] :], dtype=object)
    for i in real_np.ndindex(*idx.shape[:-1]):
        out[i] = a[tuple(idx[i])]
    return _wrap(out)


def boolean_mask(x, mask, axis=None, name=None):
    m = _arr(mask)
    conc = real_np.array([bool(e) for e in m.reshape(-1)]).reshape(m.shape)
    a = _arr(x)
    return _wrap(a[conc])


def pad(x, paddings, mode="CONSTANT", constant_values=0, name=None):
    a = _arr(x)
    p = real_np.asarray(paddings.numpy() if isinstance(paddings, STensor) else paddings).astype(int)
    shp = tuple(s + int(l) + int(r) for s, (l, r) in zip(a.shape, p))
    out = real_np.empty(shp, dtype=object)
    fillv = _lift_elem(constant_values)
    if a.size and isinstance(a.reshape(-1)[0], tm.C) and not isinstance(fillv, tm.C):
        fillv = tm.C(fillv, tm.ZERO)
    out.fill(fillv)
    sl = tuple(slice(int(l), int(l) + s) for s, (l, r) in zip(a.shape, p))
    out[sl] = a
    return _wrap(out)


def range_(*args, dtype=None, name=None, **kw):
    vals = [int(a) if not isinstance(a, float) else a for a in args]
    return convert_to_tensor(real_np.arange(*vals))


def linspace(start, stop, num, name=None, axis=0):
    return convert_to_tensor(real_np.linspace(float(start), float(stop), int(num)))


def cumsum(x, axis=0, exclusive=False, reverse=False, name=None):
    a = _arr(x)
    b = real_np.moveaxis(a, axis, -1)
    out = real_np.empty(b.shape, dtype=object)
    for idx in real_np.ndindex(*b.shape[:-1]):
        acc = tm.ZERO
        for i in range(b.shape[-1]):
            if exclusive:
                out[idx + (i,)] = acc
                acc = acc + b[idx + (i,)]
            else:
                acc = acc + b[idx + (i,)]
                out[idx + (i,)] = acc
    return _wrap(real_np.moveaxis(out, -1, axis))


def split(x, num_or_size_splits, axis=0, num=None, name=None):
    a = _arr(x)
    if isinstance(num_or_size_splits, int):
        parts = real_np.split(a, num_or_size_splits, axis=axis)
    else:
        idx = real_np.cumsum([int(i) for i in num_or_size_splits])[:-1]
        parts = real_np.split(a, idx, axis=axis)
    return [_wrap(p) for p in parts]


def diag_part(x, name=None):
    a = _arr(x)
    n = a.shape[-1]
    out = real_np.empty(a.shape[:-1], dtype=object)
    for i in range(n):
        out[..., i] = a[..., i, i]
    return _wrap(out)


def tensor_diag_part(x, name=None):
    a = _arr(x)
    k = a.ndim // 2
    if a.ndim % 2 or a.shape[:k] != a.shape[k:]:
        raise ValueError("tensor_diag_part: shape %s is not [D1..Dk, D1..Dk]" % (a.shape,))
    out = real_np.empty(a.shape[:k], dtype=object)
    for idx in real_np.ndindex(*out.shape):
        out[idx] = a[idx + idx]
    return _wrap(out)


def one_hot(indices, depth, dtype=None, **kw):
    idx = real_np.asarray(indices.numpy() if isinstance(indices, STensor) else indices).astype(int)
    return convert_to_tensor(real_np.eye(depth)[idx])


# ---- complex


def complex_(re, im, name=None):
    a, b = real_np.broadcast_arrays(_arr(re), _arr(im))
    f = real_np.frompyfunc(lambda x, y: tm.C(x, y), 2, 1)
    t = _wrap(f(a, b))
    t._dtype = complex128
    return t


_vreal = real_np.frompyfunc(lambda e: e.re if isinstance(e, tm.C) else e, 1, 1)
_vimag = real_np.frompyfunc(lambda e: e.im if isinstance(e, tm.C) else tm.ZERO, 1, 1)
_vconj = real_np.frompyfunc(lambda e: e.conjugate(), 1, 1)
_vangle = real_np.frompyfunc(lambda e: tm.fn("atan2", e.im, e.re) if isinstance(e, tm.C) else tm.fn("atan2", tm.ZERO, e), 1, 1)


def real(x, name=None):
    return _wrap(_vreal(_arr(x)))


def imag(x, name=None):
    return _wrap(_vimag(_arr(x)))


def conj(x, name=None):
    return _wrap(_vconj(_arr(x)))


def angle(x, name=None):
    return _wrap(_vangle(_arr(x)))


# ---- variables and misc runtime


class Variable:
    _count = 0

    def __init__(self, initial_value=None, trainable=True, name=None, dtype=None, shape=None, **kw):
        if callable(initial_value):
            initial_value = initial_value()
        self.value_ = convert_to_tensor(initial_value, dtype)
        self.trainable = trainable
        Variable._count += 1
        self.name = (name or "Variable_%d" % Variable._count) + ":0"
        self._dtype = as_dtype(dtype) if dtype else self.value_.dtype

    dtype = property(lambda s: s._dtype)
    shape = property(lambda s: s.value_.shape)

    def assign(self, v, **kw):
        self.value_ = convert_to_tensor(v)
        return self

    def assign_add(self, v, **kw):
        self.value_ = self.value_ + v
        return self

    def value(self):
        return self.value_

    def read_value(self):
        return self.value_

    def numpy(self):
        return self.value_.numpy()

    def ref(self):
        return _Ref(self)

    def __array__(self, dtype=None, copy=None):
        return self.value_.a

    def __getitem__(self, i):
        return self.value_[i]

    def __float__(self):
        return float(self.value_)

    def __bool__(self):
        return bool(self.value_)

    def __repr__(self):
        return "ShimVariable(%s=%r)" % (self.name, self.value_)


def _deleg(op):
    def f(self, *a):
        return getattr(self.value_, op)(*a)

    return f


for _op in ("__add__ __radd__ __sub__ __rsub__ __mul__ __rmul__ __truediv__ __rtruediv__ __neg__ __pow__ __rpow__ "
            "__lt__ __le__ __gt__ __ge__ __abs__ __mod__").split():
    setattr(Variable, _op, _deleg(_op))


_fresh = [0]
RANDOM_ATOMS = []  # (term, lo, hi) recorded for the contract to constrain


def fresh_atom(prefix="rnd"):
    _fresh[0] += 1
    return tm.var("%s!%d" % (prefix, _fresh[0]))


def random_uniform(shape=(), minval=0, maxval=None, dtype=None, seed=None, name=None):
    shape = _shape_arg(shape)
    if maxval is None:
        maxval = 1
    a = real_np.empty(shape, dtype=object)
    lo, hi = _arr(minval), _arr(maxval)
    lo = real_np.broadcast_to(lo, shape)
    hi = real_np.broadcast_to(hi, shape)
    for idx in real_np.ndindex(*shape):
        v = fresh_atom()
        RANDOM_ATOMS.append((v, lo[idx], hi[idx]))
        a[idx] = v
    return _wrap(a)


class _NullCtx:
    def __init__(self, *a, **k):
        pass

    def __enter__(self):
        return self

    def __exit__(self, *a):
        return False


def function(f=None, **kw):
    if f is None:
        return lambda g: g
    return f


def _source_atoms(src):
    """the symbol atoms of a differentiation source (Variable or tensor of plain symbols)"""
    arr = _arr(src.value_ if isinstance(src, Variable) else src)
    out = []
    for e in arr.reshape(-1):
        e = tm._l(e)
        if e.op != "v":
            raise NotModelled("tf.GradientTape: source is not a tensor of plain symbols (%s)" % tm.short(e, 60))
        out.append(e)
    return arr.shape, out


class _GradientTape:
    """model of TensorFlow reverse-mode autodiff: tape.gradient(y, sources) is the MATHEMATICAL gradient of sum(y) with respect to
    the symbols the sources hold, obtained by terms.diff (A-AD: that TensorFlow's autodiff computes this is the trusted part; which
    value is differentiated with respect to what, and how batches are accumulated, is the repository's code and runs for real)."""

    def __init__(self, persistent=False, watch_accessed_variables=True):
        self.persistent = persistent

    def __enter__(self):
        return self

    def __exit__(self, *a):
        return False

    def watch(self, x):
        return None

    def _one(self, roots, src):
        shape, atoms = _source_atoms(src)
        out = real_np.empty(len(atoms), dtype=object)
        for i, at in enumerate(atoms):
            acc = tm.ZERO
            for d in tm.diff(roots, {at: tm.ONE}):
                acc = tm.add(acc, d)
            out[i] = acc
        return STensor(out.reshape(shape))

    def gradient(self, target, sources, output_gradients=None, unconnected_gradients=None):
        if output_gradients is not None:
            raise NotModelled("tf.GradientTape.gradient(output_gradients=...)")
        roots = []
        for e in _arr(target).reshape(-1):
            if isinstance(e, tm.C):
                raise NotModelled("tf.GradientTape on a complex target")
            roots.append(tm._l(e))
        if isinstance(sources, (list, tuple)):
            return [self._one(roots, s_) for s_ in sources]
        return self._one(roots, sources)


def _tape_jacobian(self, target, sources, unconnected_gradients=None, **kw):
    """tape.jacobian(y, x): shape y.shape + x.shape, entry [i.., j..] = d y[i..] / d x[j..]"""
    if kw:
        raise NotModelled("tf.GradientTape.jacobian(%s)" % sorted(kw))
    t = _arr(target)

    def one(src):
        shape, atoms = _source_atoms(src)
        out = real_np.empty(t.shape + tuple(shape), dtype=object)
        for idx in real_np.ndindex(*t.shape):
            e = t[idx]
            if isinstance(e, tm.C):
                raise NotModelled("tf.GradientTape on a complex target")
            row = real_np.empty(len(atoms), dtype=object)
            for i, at in enumerate(atoms):
                row[i] = tm.diff([tm._l(e)], {at: tm.ONE})[0]
            out[idx] = row.reshape(shape) if shape else row[0]
        return STensor(out)

    if isinstance(sources, (list, tuple)):
        return [one(s_) for s_ in sources]
    return one(sources)


_GradientTape.jacobian = _tape_jacobian


class _ForwardAccumulator:
    """model of tensorflow.python.eager.forwardprop.ForwardAccumulator: acc.jvp(t) is the directional derivative of t along the
    tangents given for the primals (terms.diff with the tangents as seeds)"""

    def __init__(self, primals, tangents):
        self.table = {}
        for p_, t_ in zip(primals, tangents):
            _, atoms = _source_atoms(p_)
            tv = _arr(t_).reshape(-1)
            assert len(tv) == len(atoms)
            for a_, v_ in zip(atoms, tv):
                self.table[a_] = tm._l(v_)

    def __enter__(self):
        return self

    def __exit__(self, *a):
        return False

    def jvp(self, target, unconnected_gradients=None):
        def one(t):
            arr = _arr(t)
            flat = [tm._l(e) for e in arr.reshape(-1)]
            ds = tm.diff(flat, self.table)
            out = real_np.empty(len(flat), dtype=object)
            for i, d in enumerate(ds):
                out[i] = d
            return STensor(out.reshape(arr.shape))

        if isinstance(target, (list, tuple)):
            return [one(t) for t in target]
        return one(target)


class _Stub:
    """permissive placeholder: attribute access works, calling raises NotModelled"""

    def __init__(self, path):
        self._path = path

    def __getattr__(self, k):
        if k.startswith("__"):
            raise AttributeError(k)
        return _Stub(self._path + "." + k)

    def __call__(self, *a, **k):
        raise NotModelled("shim: %s is not modelled" % self._path)

    def __mro_entries__(self, bases):
        return (object,)


class _Mod(types.ModuleType):
    def __getattr__(self, k):
        if k.startswith("__"):
            raise AttributeError(k)
        return _Stub(self.__name__ + "." + k)


_UFUNC_MAP = {
    "add": lambda a, b: convert_to_tensor(a) + b if isinstance(a, STensor) else b.__radd__(a),
    "subtract": lambda a, b: a - b if isinstance(a, STensor) else b.__rsub__(a),
    "multiply": lambda a, b: a * b if isinstance(a, STensor) else b.__rmul__(a),
    "true_divide": lambda a, b: a / b if isinstance(a, STensor) else b.__rtruediv__(a),
    "divide": lambda a, b: a / b if isinstance(a, STensor) else b.__rtruediv__(a),
    "negative": lambda a: -a,
    "power": lambda a, b: pow_(a, b),
    "absolute": lambda a: abs_(a),
    "sqrt": lambda a: sqrt(a),
    "cos": lambda a: cos(a),
    "sin": lambda a: sin(a),
    "tan": lambda a: tan(a),
    "exp": lambda a: exp(a),
    "log": lambda a: log(a),
    "arccos": lambda a: acos(a),
    "arcsin": lambda a: asin(a),
    "arctan": lambda a: atan(a),
    "arctan2": lambda a, b: atan2(a, b),
    "less": lambda a, b: convert_to_tensor(a) < b,
    "greater": lambda a, b: convert_to_tensor(a) > b,
    "less_equal": lambda a, b: convert_to_tensor(a) <= b,
    "greater_equal": lambda a, b: convert_to_tensor(a) >= b,
    "square": lambda a: a * a,
    "conjugate": lambda a: conj(a),
    "matmul": lambda a, b: matmul(a, b),
}


def polyval(coeffs, x, name=None):
    """Horner scheme, highest power first (tf.math.polyval)"""
    x = convert_to_tensor(x)
    acc = zeros_like(x)
    for c in coeffs:
        acc = acc * x + c
    return acc


def build():
    tf = _Mod("tensorflow")
    tf.__version__ = "2.99.0-shim"
    tf.__path__ = []
    g = globals()
    for k in ("Tensor Variable float64 float32 complex128 complex64 int32 int64 sqrt exp log sin cos tan acos asin atan "
              "tanh cosh sinh acosh atan2 square sign maximum minimum clip_by_value where reduce_sum reduce_prod reduce_max "
              "reduce_min reduce_mean reduce_all reduce_any norm cross matmul einsum tensordot convert_to_tensor constant "
              "identity stop_gradient cast zeros ones zeros_like ones_like fill eye stack unstack concat expand_dims squeeze "
              "reshape transpose broadcast_to tile shape size rank gather gather_nd boolean_mask pad linspace cumsum split "
              "one_hot real imag function logical_not logical_and logical_or floor rsqrt").split():
        setattr(tf, k, g[k])
    tf.bool = bool_
    tf.abs = abs_
    tf.pow = pow_
    tf.range = range_
    tf.complex = complex_
    tf.conj = conj
    tf.newaxis = None
    tf.is_tensor = lambda x: isinstance(x, (STensor, Variable))
    tf.name_scope = _NullCtx
    tf.device = _NullCtx
    tf.GradientTape = _GradientTape
    tf.TensorShape = TensorShape
    tf.as_dtype = as_dtype
    tf.negative = lambda x, name=None: -convert_to_tensor(x)
    tf.add = lambda a, b, name=None: convert_to_tensor(a) + b
    tf.subtract = lambda a, b, name=None: convert_to_tensor(a) - b
    tf.multiply = lambda a, b, name=None: convert_to_tensor(a) * b
    tf.divide = lambda a, b, name=None: convert_to_tensor(a) / b
    tf.less = lambda a, b, name=None: convert_to_tensor(a) < b
    tf.greater = lambda a, b, name=None: convert_to_tensor(a) > b
    tf.equal = lambda a, b, name=None: convert_to_tensor(a) == b
    tf.add_n = lambda xs, name=None: sum(xs[1:], xs[0])

    m = _Mod("tensorflow.math")
    for k in ("sqrt exp log sin cos tan acos asin atan tanh cosh sinh acosh atan2 square sign maximum minimum reduce_sum "
              "reduce_prod reduce_max reduce_min reduce_mean reduce_all reduce_any real imag cumsum logical_not logical_and "
              "logical_or floor floormod rsqrt").split():
        setattr(m, k, g[k])
    m.abs = abs_
    m.pow = pow_
    m.conj = conj
    m.angle = angle
    m.mod = floormod
    m.add_n = tf.add_n
    m.multiply = tf.multiply
    m.is_nan = lambda x: convert_to_tensor(x) != convert_to_tensor(x)
    m.polyval = polyval
    tf.math = m

    la = _Mod("tensorflow.linalg")
    la.normalize = normalize
    la.cross = cross
    la.norm = norm
    la.matmul = matmul
    la.diag_part = diag_part
    la.tensor_diag_part = tensor_diag_part
    la.matvec = matvec
    la.einsum = einsum
    la.eye = eye
    tf.linalg = la

    rnd = _Mod("tensorflow.random")
    rnd.uniform = random_uniform
    rnd.set_seed = lambda s: None
    tf.random = rnd

    cfg = _Mod("tensorflow.config")
    exp_ = _Mod("tensorflow.config.experimental")
    exp_.list_physical_devices = lambda *a: []
    exp_.set_memory_growth = lambda *a: None
    exp_.list_logical_devices = lambda *a: []
    cfg.experimental = exp_
    cfg.list_physical_devices = lambda *a: []
    tf.config = cfg

    tf.executing_eagerly = lambda: True  # the shim evaluates eagerly
    ag = _Mod("tensorflow.autograph")
    age = _Mod("tensorflow.autograph.experimental")
    age.do_not_convert = lambda f=None, **kw: (f if f is not None else (lambda g: g))
    ag.experimental = age
    tf.autograph = ag
    compat = _Mod("tensorflow.compat")
    tf.compat = compat
    dbg = _Mod("tensorflow.debugging")
    dbg.assert_all_finite = lambda x, msg=None, name=None: x
    dbg.check_numerics = lambda x, msg=None, name=None: x
    tf.debugging = dbg
    tf.errors = _Mod("tensorflow.errors")
    tf.errors.InvalidArgumentError = type("InvalidArgumentError", (Exception,), {})
    tf.errors.OutOfRangeError = type("OutOfRangeError", (Exception,), {})
    return tf


def install():
    """put the shim in sys.modules (must run before any tf_pwa import)"""
    tf = build()
    sys.modules["tensorflow"] = tf
    for sub in ("math", "linalg", "random", "config", "compat", "debugging", "errors"):
        sys.modules["tensorflow." + sub] = getattr(tf, sub)
    # `from tensorflow.python.eager import forwardprop` (tf_pwa.model.model.sum_grad_hessp)
    import types

    py = types.ModuleType("tensorflow.python")
    eager = types.ModuleType("tensorflow.python.eager")
    fwd = types.ModuleType("tensorflow.python.eager.forwardprop")
    fwd.ForwardAccumulator = _ForwardAccumulator
    eager.forwardprop = fwd
    py.eager = eager
    tf.python = py
    sys.modules["tensorflow.python"] = py
    sys.modules["tensorflow.python.eager"] = eager
    sys.modules["tensorflow.python.eager.forwardprop"] = fwd
    return tf


# ---- helpers for contracts


def sym_tensor(prefix, shape, sort="R"):
    a = real_np.empty(shape, dtype=object)
    for idx in real_np.ndindex(*shape):
        a[idx] = tm.var(prefix + "".join("_%d" % i for i in idx), sort)
    return STensor(a)


def sym_complex_tensor(prefix, shape):
    a = real_np.empty(shape, dtype=object)
    for idx in real_np.ndindex(*shape):
        sfx = "".join("_%d" % i for i in idx)
        a[idx] = tm.C(tm.var(prefix + "r" + sfx), tm.var(prefix + "i" + sfx))
    t = STensor(a)
    t._dtype = complex128
    return t


def elems(x):
    """flat list of the terms of a tensor (complex -> re, im)"""
    out = []
    for e in _arr(x).reshape(-1):
        if isinstance(e, tm.C):
            out += [e.re, e.im]
        else:
            out.append(tm._l(e))
    return out


class NpProxy:
    """stand-in for the module-global `np` of numpy-based repository modules in the shadow process:
    array constructors produce object arrays (so symbolic terms can be stored); everything else is numpy."""

    def __getattr__(self, k):
        return getattr(real_np, k)

    @staticmethod
    def zeros(shape, dtype=None, **kw):
        a = real_np.empty(shape if not isinstance(shape, list) else tuple(shape), dtype=object)
        a.fill(tm.ZERO)
        return a

    @staticmethod
    def ones(shape, dtype=None, **kw):
        a = real_np.empty(shape if not isinstance(shape, list) else tuple(shape), dtype=object)
        a.fill(tm.ONE)
        return a

    @staticmethod
    def eye(n, m=None, **kw):
        a = real_np.empty((n, m or n), dtype=object)
        for i in range(n):
            for j in range(m or n):
                a[i, j] = tm.ONE if i == j else tm.ZERO
        return a


def _np_digitize(x, bins, right=False):
    """np.digitize for ONE symbolic abscissa and monotonically increasing symbolic bins: the index is decided edge by edge
    (each comparison forks the path); returns a python int"""
    if right:
        raise NotModelled("np.digitize(right=True)")
    xs = _arr(x)
    if xs.size != 1:
        raise NotModelled("np.digitize of a symbolic array with more than one element")
    xv = tm._l(xs.reshape(-1)[0])
    n = 0
    for b in list(bins):
        if bool(tm.le(tm._l(b), xv)):
            n += 1
        else:
            break
    return n


NpProxy.digitize = staticmethod(_np_digitize)

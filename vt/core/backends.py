"""Back ends: z3 (rlimit-bounded), cvc5 second opinion, and the verdict helpers.

prove(hyps, goal)  ->  Verdict(status in {'proved','refuted','undecided'}, backend, model, stats)
feasible(hyps)     ->  bool (unknown counts as feasible)
"""
from __future__ import annotations

import os
import subprocess
import time
from fractions import Fraction

import z3

from . import terms as tm

RLIMIT = int(os.environ.get("VT_RLIMIT", "8000000"))
FEAS_RLIMIT = 4000000

PI_LO = Fraction(3141592653589793, 10**15)
PI_HI = Fraction(3141592653589794, 10**15)


class Verdict:
    def __init__(self, status, backend, model=None, time_s=0.0, rlimit=0, detail=""):
        self.status = status
        self.backend = backend
        self.model = model
        self.time_s = time_s
        self.rlimit = rlimit
        self.detail = detail

    def __repr__(self):
        return "Verdict(%s by %s, %.2fs%s)" % (
            self.status,
            self.backend,
            self.time_s,
            (", " + self.detail[:80]) if self.detail else "",
        )


class Z3Enc:
    """translate terms to z3, collecting the definitional axioms of atoms"""

    def __init__(self, trig_instances=True):
        self.memo = {}
        self.axioms = []
        self.ufs = {}
        self.has_uf = False
        self.sq_vars = {}
        self.atans = []  # (argument, value) of every atan atom seen: pairwise monotonicity instances

    def uf(self, name, n):
        k = (name, n)
        if k not in self.ufs:
            self.ufs[k] = z3.Function("uf_" + name + ("%d" % n if n != 1 else ""), *([z3.RealSort()] * (n + 1)))
        return self.ufs[k]

    def enc(self, root):
        memo = self.memo
        for t in tm.postorder([root]):
            if t.id in memo:
                continue
            memo[t.id] = self._enc1(t)
        return memo[root.id]

    def _q(self, q):
        return z3.RealVal(str(q.numerator)) / z3.RealVal(str(q.denominator)) if q.denominator != 1 else z3.RealVal(str(q.numerator))

    def _enc1(self, t):
        op = t.op
        m = self.memo
        if op == "c":
            return z3.Q(t.args[0].numerator, t.args[0].denominator)
        if op == "v":
            if t.args[1] == "B":
                return z3.Bool(t.args[0])
            if t.args[1] == "I":
                return z3.ToReal(z3.Int(t.args[0]))
            return z3.Real(t.args[0])
        if op == "pi":
            p = z3.Real("pi!")
            self.axioms.append(z3.And(p > z3.Q(PI_LO.numerator, PI_LO.denominator), p < z3.Q(PI_HI.numerator, PI_HI.denominator)))
            return p
        if op == "true":
            return z3.BoolVal(True)
        if op == "false":
            return z3.BoolVal(False)
        a = [m[x.id] if isinstance(x, tm.T) else x for x in t.args]
        if op == "+":
            return a[0] + a[1]
        if op == "*":
            return a[0] * a[1]
        if op == "/":
            return a[0] / a[1]
        if op == "neg":
            return -a[0]
        if op == "sqrt":
            s = z3.Real("sq!%d" % t.id)
            self.sq_vars[t.id] = s
            self.axioms.append(z3.Implies(a[0] >= 0, z3.And(s >= 0, s * s == a[0])))
            return s
        if op == "ite":
            return z3.If(a[0], a[1], a[2])
        if op == "<":
            return a[0] < a[1]
        if op == "<=":
            return a[0] <= a[1]
        if op == "==":
            return a[0] == a[1]
        if op == "and":
            return z3.And(a[0], a[1])
        if op == "or":
            return z3.Or(a[0], a[1])
        if op == "not":
            return z3.Not(a[0])
        if op == "f":
            return self._encf(t, a[0], a[1:])
        raise KeyError(op)

    def _encf(self, t, name, a):
        self.has_uf = True
        f = self.uf(name, len(a))
        r = f(*a)
        ax = self.axioms
        if name in ("cos", "sin"):
            c = self.uf("cos", 1)(a[0])
            s = self.uf("sin", 1)(a[0])
            ax.append(c * c + s * s == 1)
            ax.append(z3.And(c >= -1, c <= 1, s >= -1, s <= 1))
        elif name == "atan2":
            y, x = a
            pi = self.enc(tm.PI)
            rr = z3.Real("r!%d" % t.id)
            c = self.uf("cos", 1)(r)
            s = self.uf("sin", 1)(r)
            ax.append(z3.And(rr >= 0, rr * rr == x * x + y * y))
            ax.append(z3.And(r > -pi, r <= pi))
            ax.append(z3.And(rr * c == x, rr * s == y))
            ax.append(c * c + s * s == 1)
            ax.append(z3.Implies(rr == 0, r == 0))
            # quadrant facts (help the solver; consequences of the above + range)
            ax.append(z3.Implies(z3.And(y == 0, x > 0), r == 0))
            ax.append(z3.Implies(y > 0, z3.And(r > 0, r < pi)))
            ax.append(z3.Implies(y < 0, r < 0))
            ax.append(z3.Implies(z3.And(y == 0, x < 0), r == pi))
        elif name == "acos":
            pi = self.enc(tm.PI)
            c = self.uf("cos", 1)(r)
            s = self.uf("sin", 1)(r)
            ax.append(z3.Implies(z3.And(a[0] >= -1, a[0] <= 1), z3.And(r >= 0, r <= pi, c == a[0], s >= 0, c * c + s * s == 1)))
        elif name == "asin":
            pi = self.enc(tm.PI)
            c = self.uf("cos", 1)(r)
            s = self.uf("sin", 1)(r)
            ax.append(z3.Implies(z3.And(a[0] >= -1, a[0] <= 1), z3.And(2 * r >= -pi, 2 * r <= pi, s == a[0], c >= 0, c * c + s * s == 1)))
        elif name == "atan":
            # atan: R -> (-pi/2, pi/2), odd, strictly increasing (instantiated for every pair of atan atoms of the query)
            pi = self.enc(tm.PI)
            ax.append(z3.And(2 * r > -pi, 2 * r < pi))
            ax.append(z3.And(z3.Implies(a[0] > 0, r > 0), z3.Implies(a[0] < 0, r < 0), z3.Implies(a[0] == 0, r == 0)))
            for (b, rb) in self.atans:
                ax.append(z3.And(z3.Implies(a[0] < b, r < rb), z3.Implies(a[0] > b, r > rb), z3.Implies(a[0] == b, r == rb)))
            self.atans.append((a[0], r))
        elif name == "exp":
            ax.append(r > 0)
        elif name == "cosh":
            ax.append(r >= 1)
        elif name == "acosh":
            ax.append(z3.Implies(a[0] >= 1, r >= 0))
        elif name == "tanh":
            ax.append(z3.And(r > -1, r < 1))
        elif name == "floor":
            k = z3.Int("fl!%d" % t.id)
            ax.append(z3.And(z3.ToReal(k) <= a[0], a[0] < z3.ToReal(k) + 1))
            return z3.ToReal(k)
        elif name == "mod":
            # python/numpy float modulo: result has the sign of the divisor
            k = z3.Int("md!%d" % t.id)
            ax.append(z3.Implies(a[1] > 0, z3.And(r == a[0] - z3.ToReal(k) * a[1], r >= 0, r < a[1])))
        return r


def _mk_solver(enc, rlimit):
    s = z3.Solver()
    s.set("rlimit", rlimit)
    return s


def _model_to_env(enc, model, roots):
    env = {}
    for t in tm.postorder(roots):
        if t.op == "v" and t.args[1] != "B":
            zv = z3.Real(t.args[0]) if t.args[1] == "R" else z3.Int(t.args[0])
            val = model.eval(zv, model_completion=True)
            try:
                if z3.is_algebraic_value(val):
                    val = val.approx(30)
                env[t.args[0]] = float(val.numerator_as_long()) / float(val.denominator_as_long())
            except Exception:
                try:
                    env[t.args[0]] = float(val.as_decimal(30).rstrip("?"))
                except Exception:
                    env[t.args[0]] = None
        elif t.op == "v":
            env[t.args[0]] = bool(model.eval(z3.Bool(t.args[0]), model_completion=True))
    return env


Z3_CLI = os.environ.get("VT_Z3", "/usr/local/bin/z3-new")
HARD_TIMEOUT_S = int(os.environ.get("VT_Z3_HARD_TIMEOUT", "40"))


def _is_nonlinear(formulas):
    for t in tm.postorder(formulas):
        if t.op == "*" and t.args[0].op != "c" and t.args[1].op != "c":
            return True
        if t.op == "/" and t.args[1].op != "c":
            return True
        if t.op in ("sqrt", "f"):
            return True
    return False


def _parse_values(txt, names):
    """parse the answer of (get-value ...) printed with pp.decimal=true"""
    import re

    env = {}
    for name in names:
        m = re.search(r"\(\s*%s\s+(.*?)\)\s*(?:\n|\)$|$)" % re.escape(name), txt, re.S)
        if not m:
            env[name] = None
            continue
        v = m.group(1).strip().replace("?", "")
        try:
            neg = False
            if v.startswith("(-"):
                neg = True
                v = v[2:].strip().rstrip(")").strip()
            if v.startswith("(/"):
                a_, b_ = v[2:].strip().rstrip(")").split()
                val = float(a_) / float(b_)
            elif v in ("true", "false"):
                val = v == "true"
            else:
                val = float(v)
            env[name] = -val if neg else val
        except Exception:
            env[name] = None
    return env


def check_sat(formulas, rlimit=RLIMIT, want_model=False):
    """-> ('sat'|'unsat'|'unknown', model_env or None, stats).  Non-linear queries run in a z3 sub-process
    (rlimit for determinism + a hard wall-clock kill: in-process nlsat has been seen to ignore rlimit)."""
    formulas = list(formulas)
    enc = Z3Enc()
    zs = [enc.enc(f) for f in formulas]
    s = _mk_solver(enc, rlimit)
    for a in enc.axioms:
        s.add(a)
    for z in zs:
        s.add(z)
    t0 = time.time()
    if _is_nonlinear(formulas) or enc.has_uf:
        names = []
        if want_model:
            for t in tm.postorder(formulas):
                if t.op == "v":
                    names.append(t.args[0])
        txt = "(set-option :rlimit %d)\n" % rlimit + s.to_smt2()
        if want_model and names:
            txt += "\n(get-value (%s))\n" % " ".join("|%s|" % n if ("!" in n or "." in n) else n for n in names)
        try:
            p = subprocess.run([Z3_CLI, "-in", "pp.decimal=true", "pp.decimal_precision=17", "-T:%d" % HARD_TIMEOUT_S],
                               input=txt.encode(), stdout=subprocess.PIPE, stderr=subprocess.PIPE, timeout=HARD_TIMEOUT_S + 10)
            out = p.stdout.decode()
        except Exception:
            out = "unknown"
        dt = time.time() - t0
        first = out.strip().splitlines()[0].strip() if out.strip() else "unknown"
        if first == "sat":
            env = _parse_values(out, names) if want_model else None
            return "sat", env, (dt, 0, enc, s)
        if first == "unsat":
            return "unsat", None, (dt, 0, enc, s)
        return "unknown", None, (dt, 0, enc, s)
    r = s.check()
    dt = time.time() - t0
    used = 0
    if r == z3.sat:
        env = _model_to_env(enc, s.model(), formulas) if want_model else None
        return "sat", env, (dt, used, enc, s)
    if r == z3.unsat:
        return "unsat", None, (dt, used, enc, s)
    return "unknown", None, (dt, used, enc, s)


def feasible(hyps):
    """False only if the hypotheses are PROVED contradictory (cheap attempts; unknown counts as feasible)"""
    hyps = list(hyps)
    try:
        from . import ring, tower

        hs = [tower.simplify_formula(h) for h in hyps]
        if any(h is tm.FALSE for h in hs):
            return False
        r, _, _ = check_sat(hs, rlimit=FEAS_RLIMIT // 4)
        if r == "unsat":
            return False
        if r == "sat":
            return True
        mono = tower.monomial_abstraction(hs)
        if mono is not None:
            r, _, _ = check_sat(mono[0] + mono[1], rlimit=FEAS_RLIMIT // 4)
            if r == "unsat":
                return False
        sub = ring.subterm_abstraction(hs, tm.FALSE)
        if sub is not None:
            r, _, _ = check_sat(sub[0], rlimit=FEAS_RLIMIT // 4)
            if r == "unsat":
                return False
    except Exception:
        pass
    return True


def cvc5_check(smt2_text, timeout_s=60):
    exe = "/usr/bin/cvc5"
    if not os.path.exists(exe):
        return "unknown"
    try:
        p = subprocess.run(
            [exe, "--lang=smt2", "--tlimit=%d" % int(timeout_s * 1000), "--nl-ext-tplanes", "--nl-cov"],
            input=smt2_text.encode(),
            stdout=subprocess.PIPE,
            stderr=subprocess.PIPE,
            timeout=timeout_s + 5,
        )
        out = p.stdout.decode().strip().splitlines()
        return out[0].strip() if out else "unknown"
    except Exception:
        return "unknown"


def prove(hyps, goal, rlimit=RLIMIT, use_cvc5=True, cvc5_timeout=30, use_abstraction=True):
    """valid(hyps => goal)?  Refutation returns a float model of the free variables."""
    t0 = time.time()
    if use_abstraction:
        try:
            from . import tower

            hs = [tower.simplify_formula(h) for h in hyps]
            gs = tower.simplify_formula(goal)
            if gs is tm.TRUE:
                return Verdict("proved", "tower-nf", None, time.time() - t0, 0)
            r0, _, (dt0, used0, _e, _s) = check_sat(hs + [tm.not_(gs)], rlimit=rlimit // 4)
            if r0 == "unsat":
                return Verdict("proved", "z3+tower-nf", None, time.time() - t0, used0)
            from . import ring

            mono = tower.monomial_abstraction(hs + [gs])
            if mono is not None:
                r0, _, (dt0, used0, _e, _s) = check_sat(mono[0][:-1] + mono[1] + [tm.not_(mono[0][-1])], rlimit=rlimit // 4)
                if r0 == "unsat":
                    return Verdict("proved", "z3+tower-nf+monomial-abstraction", None, time.time() - t0, used0)
            sub = ring.subterm_abstraction(hs, gs)
            if sub is not None:
                r0, _, (dt0, used0, _e, _s) = check_sat(sub[0] + [tm.not_(sub[1])], rlimit=rlimit // 4)
                if r0 == "unsat":
                    return Verdict("proved", "z3+tower-nf+abstraction", None, time.time() - t0, used0)
        except Exception:
            pass
    r, env, (dt, used, enc, s) = check_sat(list(hyps) + [tm.not_(goal)], rlimit=rlimit, want_model=True)
    if r == "unsat":
        return Verdict("proved", "z3", None, dt, used)
    if r == "sat":
        # a z3 model is a counterexample only if the claim is false at that point under the REAL functions
        # (uninterpreted cos/sin/exp/log/mod are under-axiomatised, their models can be spurious)
        try:
            full = {}
            for t in tm.postorder(list(hyps) + [goal]):
                if t.op == "v":
                    full[t.args[0]] = env.get(t.args[0]) if env and env.get(t.args[0]) is not None else 0.0
            from fractions import Fraction as _F

            fx = {k: _F(repr(v)) if isinstance(v, float) else _F(v) for k, v in full.items()}

            def _ev(t):
                """True / False / None (undefined at this point: e.g. a comparison against x/0 -- IEEE semantics differ, native replay decides)"""
                try:
                    return tm.eval_exact([t], fx)[0]
                except Exception:
                    pass
                v = tm.eval_float([t], full)[0]
                return v

            hv = [x for x in (_ev(h) for h in hyps) if x is not None]
            gv = _ev(goal)
            if all(x is True or x == True for x in hv) and (gv is False or gv == False):  # noqa: E712
                return Verdict("refuted", "z3", full, dt, used)
            return Verdict("undecided", "z3", None, dt, used, "z3 model is not a counterexample under float evaluation (uninterpreted functions / rounding)")
        except Exception:
            return Verdict("undecided", "z3", None, dt, used, "z3 model could not be evaluated")
    if use_abstraction:
        try:
            from . import ring

            sub = ring.subterm_abstraction(list(hyps), goal)
            if sub is not None:
                h1, g1, n1 = sub
                r4, _, (dt4, used4, _e, _s) = check_sat(h1 + [tm.not_(g1)], rlimit=rlimit)
                if r4 == "unsat":
                    return Verdict("proved", "z3+subterm-abstraction", None, time.time() - t0, used + used4, "%d abstracted" % n1)
        except Exception:
            pass
        try:
            from . import ring

            h2, g2, nf = ring.abstract_problem(list(hyps), goal)
            r3, _, (dt3, used3, _e, _s) = check_sat(h2 + [tm.not_(g2)], rlimit=rlimit)
            if r3 == "unsat":
                return Verdict("proved", "z3+factor-abstraction", None, time.time() - t0, used + used3, "%d factors" % nf)
        except Exception as ex:  # abstraction is optional
            pass
    if use_cvc5:
        txt = "(set-logic ALL)\n" + s.to_smt2()
        r2 = cvc5_check(txt, cvc5_timeout)
        if r2 == "unsat":
            return Verdict("proved", "cvc5", None, time.time() - t0, used)
    return Verdict("undecided", "z3", None, time.time() - t0, used, "z3 unknown (rlimit %d / hard timeout %ds)" % (rlimit, HARD_TIMEOUT_S))

"""Path forking for Python-level branches on symbolic booleans (DESIGN 2.1 "Control flow").

`explore(fn, pre)` re-executes `fn` with a decision trail until the finite tree of
feasible paths is exhausted.  Each leaf is (path_condition_terms, result).
"""
from . import terms as tm

_CTX = None


class PathCtx:
    def __init__(self, pre, trail):
        self.pre = pre  # live list: preconditions are collected while the contract runs
        self.trail = list(trail)  # decisions to replay [(term, bool)]
        self.pos = 0
        self.pc = []  # (term, bool) taken
        self.pending = []  # alternative trails discovered


def decide(t):
    ctx = _CTX
    if ctx is None:
        raise TypeError(
            "truth value of a symbolic term requested outside path exploration: %s" % tm.short(t)
        )
    if ctx.pos < len(ctx.trail):
        c, b = ctx.trail[ctx.pos]
        if c is not t:
            raise RuntimeError("non-deterministic replay of decision trail")
        ctx.pos += 1
        ctx.pc.append((t, b))
        return b
    from . import backends

    hyp = list(ctx.pre) + [c if b else tm.not_(c) for c, b in ctx.pc]
    can_t = backends.feasible(hyp + [t])
    can_f = backends.feasible(hyp + [tm.not_(t)])
    if can_t and can_f:
        ctx.pending.append(ctx.pc + [(t, False)])
        b = True
    elif can_t:
        b = True
    elif can_f:
        b = False
    else:
        raise RuntimeError("infeasible path reached (contradictory precondition?)")
    ctx.trail.append((t, b))
    ctx.pos += 1
    ctx.pc.append((t, b))
    return b


def explore(fn, pre=(), max_paths=256):
    """returns list of (pc_terms, result)"""
    global _CTX
    work = [[]]
    leaves = []
    while work:
        trail = work.pop()
        ctx = PathCtx(pre, trail)
        old = _CTX
        _CTX = ctx
        try:
            res = fn()
        finally:
            _CTX = old
        leaves.append(([c if b else tm.not_(c) for c, b in ctx.pc], res))
        work.extend(ctx.pending)
        if len(leaves) > max_paths:
            raise RuntimeError("path explosion (> %d paths)" % max_paths)
    return leaves

"""Ring normaliser: decides equalities of rational functions in atoms modulo the
triangular relations of DESIGN 2.1 (s^2 = N for radicals, sin^2 = 1 - cos^2 for unit angles,
cos/sin of atan2/acos atoms eliminated).  Sound; incomplete for dependent radicals.

is_zero(term) -> (status, info)   status in {'zero', 'nonzero', 'gaveup'}
"""
from __future__ import annotations

import math
import time
from fractions import Fraction
from functools import reduce

from sympy import QQ
from sympy.polys.fields import field as _field

from . import terms as tm


class GaveUp(Exception):
    pass


import contextlib
import signal
import threading


@contextlib.contextmanager
def time_limit(seconds):
    """hard wall-clock limit for pure-Python algebra (sympy gcd can run for minutes inside one call)"""
    if threading.current_thread() is not threading.main_thread() or seconds is None:
        yield
        return

    def handler(signum, frame):
        raise GaveUp("hard time limit (%.0fs) in the algebra back end" % seconds)

    old = signal.signal(signal.SIGALRM, handler)
    prev = signal.setitimer(signal.ITIMER_REAL, seconds)
    try:
        yield
    finally:
        signal.setitimer(signal.ITIMER_REAL, 0)
        signal.signal(signal.SIGALRM, old)
        if prev and prev[0] > 0:
            # restore an outer limit (minus nothing: outer limits are coarse)
            signal.setitimer(signal.ITIMER_REAL, prev[0])


# ---------------------------------------------------------------- angle decomposition


def _lin(t):
    """angle term -> {atom: Fraction}"""
    if t.op == "+":
        a, b = _lin(t.args[0]), _lin(t.args[1])
        r = dict(a)
        for k, v in b.items():
            r[k] = r.get(k, 0) + v
        return r
    if t.op == "neg":
        return {k: -v for k, v in _lin(t.args[0]).items()}
    if t.op == "*":
        a, b = t.args
        if a.op == "c":
            return {k: v * a.args[0] for k, v in _lin(b).items()}
        if b.op == "c":
            return {k: v * b.args[0] for k, v in _lin(a).items()}
    if t.op == "c":
        if t.args[0] == 0:
            return {}
        raise GaveUp("non-zero rational constant inside an angle")
    if t.op == "f" and t.args[0] == "mod" and _is_two_pi(t.args[2]):
        # cos/sin are 2 pi periodic: (x mod 2 pi) and x are the same angle
        return _lin(t.args[1])
    return {t: Fraction(1)}


def _is_two_pi(t):
    try:
        d = _lin(t)
    except GaveUp:
        return False
    return len(d) == 1 and d.get(tm.PI) == 2


def _fgcd(qs):
    qs = [abs(q) for q in qs if q != 0]
    if not qs:
        return Fraction(1)
    den = reduce(lambda a, b: a * b // math.gcd(a, b), [q.denominator for q in qs], 1)
    num = reduce(math.gcd, [int(q * den) for q in qs])
    return Fraction(num, den)


class TrigRewriter:
    """term -> term without cos/sin/tan/exp of compound arguments"""

    def __init__(self, roots):
        self.units = {}
        self.eunits = {}
        self.side_conditions = []  # terms that must be non-zero for the rewriting to be valid
        coeffs, ecoeffs = {}, {}
        for t in tm.postorder(roots):
            if t.op == "f" and t.args[0] in ("cos", "sin", "tan"):
                for a, q in _lin(t.args[1]).items():
                    coeffs.setdefault(a, []).append(q)
            if t.op == "f" and t.args[0] == "exp":
                for a, q in _lin_e(t.args[1]).items():
                    ecoeffs.setdefault(a, []).append(q)
        for a, qs in coeffs.items():
            self.units[a] = _fgcd(qs)
        for a, qs in ecoeffs.items():
            self.eunits[a] = _fgcd(qs)

    def unit_cs(self, a):
        """(cos, sin) terms of u*a"""
        u = self.units[a]
        if a.op == "pi":
            # cos(u*pi): only multiples of 1/2 are known
            if (u * 2).denominator != 1:
                raise GaveUp("cos of pi*%s" % u)
            k = int(u * 2) % 4
            return [(tm.ONE, tm.ZERO), (tm.ZERO, tm.ONE), (tm.const(-1), tm.ZERO), (tm.ZERO, tm.const(-1))][k]
        if u == 1 and a.op == "f" and a.args[0] == "atan2":
            y, x = a.args[1], a.args[2]
            r2 = tm.add(tm.mul(x, x), tm.mul(y, y))
            r = tm.sqrt_(r2)
            if not any(r2 is c for c in self.side_conditions):
                self.side_conditions.append(r2)  # atan2(0,0) = 0 is NOT x/r: needs x^2+y^2 != 0
            return tm.div(x, r), tm.div(y, r)
        if u == 1 and a.op == "f" and a.args[0] == "acos":
            x = a.args[1]
            return x, tm.sqrt_(tm.add(tm.ONE, tm.neg(tm.mul(x, x))))
        if u == 1 and a.op == "f" and a.args[0] == "asin":
            x = a.args[1]
            return tm.sqrt_(tm.add(tm.ONE, tm.neg(tm.mul(x, x)))), x
        half = Fraction(1, 2)
        if u == half and a.op == "f" and a.args[0] == "acos":
            # beta = acos(x) in [0, pi]  =>  cos(beta/2) = sqrt((1+x)/2) >= 0, sin(beta/2) = sqrt((1-x)/2) >= 0
            x = a.args[1]
            h = tm.const(half)
            return tm.sqrt_(tm.mul(h, tm.add(tm.ONE, x))), tm.sqrt_(tm.mul(h, tm.add(tm.ONE, tm.neg(x))))
        if u == half and a.op == "f" and a.args[0] == "atan2":
            # theta = atan2(y,x) in (-pi, pi]  =>  cos(theta/2) = sqrt((1 + x/r)/2) >= 0 ; sin(theta/2) = (y/r) / (2 cos(theta/2))
            # valid for theta != pi, i.e. 1 + x/r != 0 (side condition), and r != 0
            y, x = a.args[1], a.args[2]
            r2 = tm.add(tm.mul(x, x), tm.mul(y, y))
            r = tm.sqrt_(r2)
            c2 = tm.mul(tm.const(half), tm.add(tm.ONE, tm.div(x, r)))
            ch = tm.sqrt_(c2)
            for sc in (r2, c2):
                if not any(sc is c for c in self.side_conditions):
                    self.side_conditions.append(sc)
            return ch, tm.div(tm.div(y, r), tm.mul(tm.const(2), ch))
        ua = tm.mul(tm.const(u), a)
        return tm.fn("cosu", ua), tm.fn("sinu", ua)

    def cis(self, angle):
        """(cos, sin) of angle as terms over unit generators"""
        re, im = tm.ONE, tm.ZERO
        for a, q in _lin(angle).items():
            if q == 0:
                continue
            k = q / self.units[a]
            assert k.denominator == 1
            k = int(k)
            c, s = self.unit_cs(a)
            if k < 0:
                s = tm.neg(s)
                k = -k
            pr, pi_ = tm.ONE, tm.ZERO
            for _ in range(k):
                pr, pi_ = tm.add(tm.mul(pr, c), tm.neg(tm.mul(pi_, s))), tm.add(tm.mul(pr, s), tm.mul(pi_, c))
            re, im = tm.add(tm.mul(re, pr), tm.neg(tm.mul(im, pi_))), tm.add(tm.mul(re, pi_), tm.mul(im, pr))
        return re, im

    def exp(self, arg):
        r = tm.ONE
        for a, q in _lin_e(arg).items():
            if q == 0:
                continue
            k = q / self.eunits[a]
            k = int(k)
            if a.op == "f" and a.args[0] == "log" and self.eunits[a] == 1:
                base = a.args[1]
            else:
                base = tm.fn("expu", tm.mul(tm.const(self.eunits[a]), a))
            r = tm.mul(r, tm.pow_(base, k))
        return r

    def rewrite(self, roots):
        memo = {}
        for t in tm.postorder(roots):
            if not t.args or t.op in ("c", "v", "pi", "true", "false"):
                memo[t.id] = t
                continue
            na = tuple(memo[a.id] if isinstance(a, tm.T) else a for a in t.args)
            if t.op == "f" and t.args[0] in ("cos", "sin", "tan"):
                # decompose the ORIGINAL argument (so that units match), then rewrite inner atoms
                c, s = self.cis(t.args[1])
                c, s = self.rewrite([c, s])
                memo[t.id] = c if t.args[0] == "cos" else (s if t.args[0] == "sin" else tm.div(s, c))
                continue
            if t.op == "f" and t.args[0] == "exp":
                e = self.exp(t.args[1])
                (e,) = self.rewrite([e])
                memo[t.id] = e
                continue
            memo[t.id] = t if all(x is y for x, y in zip(na, t.args)) else tm.rebuild(t.op, na)
        return [memo[r.id] for r in roots]


def _lin_e(t):
    try:
        return _lin(t)
    except GaveUp:
        return {t: Fraction(1)}


# ---------------------------------------------------------------- polynomialisation


class Normaliser:
    def __init__(self, roots, budget_s=120.0, rewrite_trig=True):
        self.t0 = time.time()
        self.budget = budget_s
        self.side_conditions = []
        if rewrite_trig:
            tr = TrigRewriter(roots)
            roots = tr.rewrite(roots)
            self.side_conditions = tr.side_conditions
        self.roots = roots
        order = tm.postorder(roots)
        self.atom_terms = []
        for t in order:
            if t.op in ("ite", "<", "<=", "==", "and", "or", "not", "true", "false"):
                raise GaveUp("boolean structure in ring goal (split cases first)")
            if t.op in ("v", "pi", "sqrt", "f"):
                self.atom_terms.append(t)
        names = ["g%d" % i for i in range(len(self.atom_terms))]
        if not names:
            names = ["g_dummy"]
        F = _field(names, QQ)
        self.F = F[0]
        self.gens = dict(zip([a.id for a in self.atom_terms], F[1:]))
        self.gen_index = {a.id: i for i, a in enumerate(self.atom_terms)}
        self.radicals = []  # (gen_index, radicand field element), oldest first
        self.elem = {}
        self._build(order)

    def _check_time(self):
        if time.time() - self.t0 > self.budget:
            raise GaveUp("ring normaliser over budget (%.0fs)" % self.budget)

    def _build(self, order):
        F = self.F
        el = self.elem
        rad_by_radicand = {}
        for t in order:
            self._check_time()
            op = t.op
            if op == "c":
                q = t.args[0]
                el[t.id] = F(QQ(q.numerator, q.denominator))
            elif op in ("v", "pi"):
                el[t.id] = self.gens[t.id]
            elif op == "+":
                el[t.id] = el[t.args[0].id] + el[t.args[1].id]
            elif op == "*":
                el[t.id] = el[t.args[0].id] * el[t.args[1].id]
            elif op == "/":
                d = el[t.args[1].id]
                if d == 0:
                    raise GaveUp("division by an identically zero term")
                el[t.id] = el[t.args[0].id] / d
            elif op == "neg":
                el[t.id] = -el[t.args[0].id]
            elif op == "sqrt":
                rad = el[t.args[0].id]
                key = rad
                if key in rad_by_radicand:
                    el[t.id] = rad_by_radicand[key]
                else:
                    g = self.gens[t.id]
                    rad_by_radicand[key] = g
                    self.radicals.append((self.gen_index[t.id], rad))
                    el[t.id] = g
            elif op == "f":
                g = self.gens[t.id]
                el[t.id] = g
                if t.args[0] == "sinu":
                    # sin(u)^2 = 1 - cos(u)^2 ; the cosu atom of the same angle
                    c = tm.fn("cosu", t.args[1])
                    if c.id not in self.gens:
                        # cos generator absent from the goal: relation cannot be used; leave free
                        continue
                    cg = self.gens[c.id]
                    self.radicals.append((self.gen_index[t.id], 1 - cg * cg))
            else:
                raise GaveUp("op %s" % op)

    def reduce_zero(self, e):
        """is field element e zero modulo the radical relations?  (sufficient condition)"""
        rads = sorted(self.radicals, key=lambda r: r[0])
        return self._red(e, len(rads) - 1, rads)

    def _red(self, e, k, rads):
        self._check_time()
        if e == 0:
            return True
        # skip radicals not occurring
        P = e.numer
        while k >= 0:
            gi = rads[k][0]
            if any(m[gi] for m in P.itermonoms()):
                break
            k -= 1
        if k < 0:
            return P == 0
        gi, N = rads[k]
        ring = P.ring
        parts = {0: {}, 1: {}}
        maxh = 0
        for m, c in P.iterterms():
            d = m[gi]
            h, par = divmod(d, 2)
            maxh = max(maxh, h)
            m2 = tuple(0 if i == gi else x for i, x in enumerate(m))
            parts[par].setdefault(h, {})[m2] = c
        F = self.F
        res = []
        for par in (0, 1):
            acc = F(0)
            for h, mono in parts[par].items():
                p = ring.from_dict(mono)
                acc = acc + F(p) * N**h
            res.append(acc)
        return self._red(res[0], k - 1, rads) and self._red(res[1], k - 1, rads)


def is_zero(term, budget_s=120.0):
    """-> (status, info dict)"""
    t0 = time.time()
    try:
      with time_limit(budget_s):
        nz = Normaliser([term], budget_s)
        e = nz.elem[nz.roots[0].id]
        ok = nz.reduce_zero(e)
        info = {"atoms": len(nz.atom_terms), "radicals": len(nz.radicals), "time_s": time.time() - t0,
                "side_conditions": nz.side_conditions}
        return ("zero" if ok else "nonzero"), info
    except GaveUp as ex:
        return "gaveup", {"reason": str(ex), "time_s": time.time() - t0}


# ---------------------------------------------------------------- factor abstraction (for sign / definedness goals)


def _gen_name(a):
    if a.op == "v":
        return a.args[0]
    if a.op == "pi":
        return "pi"
    return "%s_%d" % ("sq" if a.op == "sqrt" else "fn", a.id)


class FactorAbstraction:
    """Rewrite every real comparison  a ~ b  in a list of formulas as a sign condition on the product of the
    irreducible factors of the normal form of (a - b); each distinct factor becomes one fresh variable.
    The abstraction is sound for validity: if the abstract implication holds for all values of the factor
    variables, it holds for the concrete polynomials.  sqrt atoms are generators; their defining relations are
    added as (abstracted) hypotheses by abstract_problem."""

    def __init__(self, budget_s=60.0):
        self.budget = budget_s
        self.fvars = {}  # canonical sympy expr (as str) -> term var
        self.t0 = time.time()

    def fac_var(self, expr):
        k = str(expr)
        if k not in self.fvars:
            self.fvars[k] = tm.var("fac!%d" % len(self.fvars))
        return self.fvars[k]

    def abstract_diff(self, diff_term):
        """term (real, ite-free) -> abstract term with the same sign"""
        import sympy

        nz = Normaliser([diff_term], self.budget, rewrite_trig=False)
        e = nz.elem[nz.roots[0].id]
        if e == 0:
            return tm.ZERO
        num = e.numer.as_expr()
        den = e.denom.as_expr()
        names = {sympy.Symbol("g%d" % i): sympy.Symbol(_gen_name(a)) for i, a in enumerate(nz.atom_terms)}
        out = tm.ONE
        for poly, inverse in ((num, False), (den, True)):
            c, facs = sympy.factor_list(poly)
            cq = Fraction(int(sympy.Rational(c).p), int(sympy.Rational(c).q))
            t = tm.const(cq)
            for f, k in facs:
                f = sympy.expand(f.subs(names))
                P = sympy.Poly(f)
                # canonical sign: leading coefficient (in sympy's deterministic generator order) positive
                if P.LC() < 0:
                    f = -f
                    if k % 2:
                        t = tm.neg(t)
                v = self.fac_var(f)
                t = tm.mul(t, tm.pow_(v, k))
            out = tm.div(out, t) if inverse else tm.mul(out, t)
            if time.time() - self.t0 > self.budget:
                raise GaveUp("factor abstraction over budget")
        return out

    def abstract(self, formula):
        memo = {}
        for t in tm.postorder([formula]):
            if t.sort != "B":
                continue
            if t.op in ("<", "<=", "=="):
                a, b = t.args
                new = None
                try:
                    d = self.abstract_diff(tm.add(a, tm.neg(b)))
                    if d is not None:
                        new = {"<": tm.lt, "<=": tm.le, "==": tm.eq}[t.op](d, tm.ZERO)
                except GaveUp:
                    new = None
                memo[t.id] = new if new is not None else t
            elif t.op in ("and", "or"):
                memo[t.id] = (tm.and_ if t.op == "and" else tm.or_)(memo[t.args[0].id], memo[t.args[1].id])
            elif t.op == "not":
                memo[t.id] = tm.not_(memo[t.args[0].id])
            else:
                memo[t.id] = t
        return memo[formula.id]


def abstract_problem(hyps, goal, budget_s=30.0):
    fa = FactorAbstraction(budget_s)
    extra = []
    for t in tm.postorder(list(hyps) + [goal]):
        if t.op == "sqrt":
            N = t.args[0]
            extra.append(tm.implies(tm.le(tm.ZERO, N), tm.and_(tm.le(tm.ZERO, t), tm.eq(tm.mul(t, t), N))))
    with time_limit(budget_s):
        return [fa.abstract(h) for h in list(hyps) + extra], fa.abstract(goal), len(fa.fvars)


# ---------------------------------------------------------------- shared-subterm abstraction


def _linear_leaves(t, out):
    """decompose t through + / neg / const* ; collect the non-linear leaves"""
    if t.op == "+":
        _linear_leaves(t.args[0], out)
        _linear_leaves(t.args[1], out)
    elif t.op == "neg":
        _linear_leaves(t.args[0], out)
    elif t.op == "*" and (t.args[0].op == "c" or t.args[1].op == "c"):
        _linear_leaves(t.args[1] if t.args[0].op == "c" else t.args[0], out)
    else:
        out.append(t)


def _poly_key(t, cache):
    """canonical key of a polynomial/rational node over base atoms (None if not cheaply available)"""
    if t.id in cache:
        return cache[t.id]
    key = None
    try:
        if tm.size([t]) <= 400 and not any(x.op in ("ite", "<", "<=", "==", "and", "or", "not") for x in tm.postorder([t])):
            nz = Normaliser([t], 5.0, rewrite_trig=False)
            e = nz.elem[nz.roots[0].id]
            import sympy

            names = {sympy.Symbol("g%d" % i): sympy.Symbol(_gen_name(a)) for i, a in enumerate(nz.atom_terms)}
            key = str(sympy.expand(e.numer.as_expr().subs(names))) + " / " + str(sympy.expand(e.denom.as_expr().subs(names)))
    except Exception:
        key = None
    cache[t.id] = key
    return key


def subterm_abstraction(hyps, goal, min_size=8):
    """generalise: replace complex radicands / denominators / comparison-side summands by fresh variables
    (the same variable for nodes with the same polynomial normal form).  Sound for validity."""
    forms = list(hyps) + [goal]
    cands = []
    for t in tm.postorder(forms):
        if t.op == "sqrt":
            _linear_leaves(t.args[0], cands)
        elif t.op == "/":
            _linear_leaves(t.args[1], cands)
        elif t.op in ("<", "<=", "=="):
            _linear_leaves(t.args[0], cands)
            _linear_leaves(t.args[1], cands)
    cache = {}
    fresh = {}
    mapping = {}
    extra = []
    for c in cands:
        if c.op in ("c", "v", "pi", "sqrt", "f", "ite") or c.id in {k.id for k in mapping}:
            continue
        if tm.size([c]) < min_size:
            continue
        key = _poly_key(c, cache) or ("id%d" % c.id)
        if key not in fresh:
            fresh[key] = tm.var("abs!%d" % len(fresh))
            if c.op == "*" and c.args[0] is c.args[1]:
                extra.append(tm.le(tm.ZERO, fresh[key]))
        mapping[c] = fresh[key]
    if not mapping:
        return None
    new = tm.subst(forms, mapping)
    return new[:-1] + extra, new[-1], len(fresh)

"""Import the REAL tf_pwa modules from VERIF_REPO, either under the shim (shadow mode) or natively."""
import importlib
import os
import sys
import types

REPO = os.environ.get("VERIF_REPO", "/repo")
_MODE = [None]


def repo():
    return os.environ.get("VERIF_REPO", "/repo")


def _stub_pkg():
    """package object for tf_pwa that does not execute tf_pwa/__init__.py"""
    root = os.path.join(repo(), "tf_pwa")
    pkg = types.ModuleType("tf_pwa")
    pkg.__path__ = [root]
    pkg.__file__ = os.path.join(root, "__init__.py")
    sys.modules["tf_pwa"] = pkg
    return pkg


def shadow():
    """install the tensorflow shim and make `tf_pwa.*` importable from the repository tree"""
    if _MODE[0] == "shadow":
        return sys.modules["tensorflow"]
    if _MODE[0] == "native" or ("tensorflow" in sys.modules and not getattr(sys.modules["tensorflow"], "__version__", "").endswith("shim")):
        raise RuntimeError("real tensorflow already imported in this process")
    from . import shim_tf

    tf = shim_tf.install()
    sys.dont_write_bytecode = True
    _stub_pkg()
    _MODE[0] = "shadow"
    return tf


def native():
    """real TF + real tf_pwa from the repository tree (np.Inf alias, DESIGN section 1)"""
    if _MODE[0] == "native":
        return sys.modules["tensorflow"]
    if _MODE[0] == "shadow":
        raise RuntimeError("shim already installed in this process")
    import numpy

    if not hasattr(numpy, "Inf"):
        numpy.Inf = numpy.inf  # harness accommodation, see DESIGN.md section 1
    os.environ.setdefault("TF_CPP_MIN_LOG_LEVEL", "3")
    os.environ.setdefault("CUDA_VISIBLE_DEVICES", "")
    sys.dont_write_bytecode = True
    if repo() not in sys.path:
        sys.path.insert(0, repo())
    import tensorflow as tf

    _MODE[0] = "native"
    return tf


def mod(name):
    """import tf_pwa.<name> (mode must have been chosen)"""
    assert _MODE[0] is not None
    m = importlib.import_module("tf_pwa." + name if name else "tf_pwa")
    f = getattr(m, "__file__", "") or ""
    if not os.path.realpath(f).startswith(os.path.realpath(repo())):
        raise RuntimeError("module %s was not loaded from %s but from %s" % (name, repo(), f))
    return m


def mode():
    return _MODE[0]

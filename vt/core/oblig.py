"""Contracts, obligations and their discharge (DESIGN 2.4-2.8).

A *contract group* is a Python function  `g(ctx)`  registered with @group(...).  It is written
against the generic interface `ctx` so that the same text runs

  * in shadow mode (ctx.mode == 'sym'): inputs are symbolic tensors, the REAL repository function
    executes on them under the tensorflow shim, claims become proof obligations;
  * natively (ctx.mode == 'num'): inputs are real tf tensors (witness replay, differential check).

Claims:  ctx.eq(name, lhs, rhs)   ctx.holds(name, boolean)    ctx.require(boolean) (precondition)
"""
from __future__ import annotations

import hashlib
import inspect
import math
import os
import random
import time
import traceback
from fractions import Fraction

GROUPS = {}  # (prop, name) -> GroupSpec


class GroupSpec:
    def __init__(self, fn, prop, name, funcs, env, tiers, kind, opts):
        self.fn = fn
        self.prop = prop
        self.name = name
        self.funcs = funcs  # ["module:qualname", ...] functions under contract
        self.env = env  # 'shim' | 'tf' | 'plain'
        self.tiers = tiers
        self.kind = kind  # 'P' | 'G' | 'B'
        self.opts = opts


def group(prop, name, funcs, env="shim", tiers=("quick", "thorough"), kind="P", **opts):
    def deco(fn):
        for p in ([prop] if isinstance(prop, str) else list(prop)):
            GROUPS[(p, name)] = GroupSpec(fn, p, name, list(funcs), env, tiers, kind, opts)
        return fn

    return deco


class Result(dict):
    """one obligation outcome (picklable dict)"""


def mk_result(name, clause, kind, status, backend, time_s=0.0, detail="", witness=None, func=None):
    return Result(name=name, clause=clause, kind=kind, status=status, backend=backend,
                  time_s=round(time_s, 4), detail=(detail if len(detail) <= 2400 else detail[:400] + " ... " + detail[-2000:]) if detail else "", witness=witness, func=func)


def func_info(spec):
    """file, line span and hash of a repository function 'module:qualname' from the CURRENT tree"""
    from . import loader

    modname, qual = spec.split(":")
    path = os.path.join(loader.repo(), "tf_pwa", *modname.split(".")) + ".py"
    if not os.path.exists(path):
        path = os.path.join(loader.repo(), "tf_pwa", *modname.split("."), "__init__.py")
    import ast

    src = open(path).read()
    tree = ast.parse(src)
    node = tree
    for part in qual.split("."):
        found = None
        for ch in ast.walk(node) if node is tree else ast.iter_child_nodes(node):
            if isinstance(ch, (ast.FunctionDef, ast.ClassDef, ast.AsyncFunctionDef)) and ch.name == part:
                found = ch
                break
        if found is None:
            return {"function": spec, "file": path, "missing": True}
        node = found
    seg = "\n".join(src.splitlines()[node.lineno - 1 : node.end_lineno])
    return {"function": spec, "file": os.path.relpath(path, loader.repo()), "lines": [node.lineno, node.end_lineno],
            "sha256": hashlib.sha256(seg.encode()).hexdigest()[:16]}


# ---------------------------------------------------------------------------------------------


class Inapplicable(Exception):
    """raised by ctx.require in numeric mode when a sampled point violates the precondition"""


class SymCtx:
    """shadow-mode context"""

    mode = "sym"

    def __init__(self, spec, tier, seed):
        from . import loader, shim_tf

        self.spec = spec
        self.tier = tier
        self.seed = seed
        self.tf = loader.shadow()
        self.shim = shim_tf
        self.inputs = []  # (name, shape, sampler, sort)
        self.pre = []
        self.claims = []  # (kind, name, lhs_terms, rhs_terms, opts)
        self.lemmas = []
        self._first_run = True
        self._sym = {}

    def mod(self, name):
        from . import loader

        return loader.mod(name)

    # inputs ------------------------------------------------------------
    def real(self, name, shape=(), sample=None):
        """symbolic real tensor input; `sample(rng)` gives a float array for numeric testing"""
        if name not in self._sym:
            self._sym[name] = self.shim.sym_tensor(name, tuple(shape))
            self.inputs.append((name, tuple(shape), sample, "R"))
        return self._sym[name]

    def scalar(self, name, sample=None):
        return self.real(name, (), sample)

    def require(self, cond, label=""):
        for t in self.shim.elems(cond):
            if not any(t is p for p in self.pre):
                self.pre.append(t)

    def lemma(self, cond):
        """extra hypothesis whose truth is a stated mathematical fact (listed as assumption)"""
        for t in self.shim.elems(cond):
            self.lemmas.append(t)

    # claims ------------------------------------------------------------
    def eq(self, name, lhs, rhs, backend="auto", **opts):
        import numpy as np

        a = self.shim._arr(lhs)
        b = self.shim._arr(rhs)
        a, b = np.broadcast_arrays(a, b)
        self._claims_now.append(("eq", name, a, b, dict(opts, backend=backend)))

    def holds(self, name, cond, **opts):
        self._claims_now.append(("holds", name, self.shim._arr(cond), None, opts))

    def const(self, x):
        return x


def _sample_env(inputs, rng):
    import numpy as np

    env = {}
    for name, shape, sampler, sort in inputs:
        if sampler is None:
            arr = np.array([rng.uniform(-2, 2) for _ in range(int(np.prod(shape)) or 1)]).reshape(shape)
        else:
            arr = np.asarray(sampler(rng), dtype=float).reshape(shape)
        for idx in np.ndindex(*shape):
            env[name + "".join("_%d" % i for i in idx)] = float(arr[idx])
    return env


def _split_cases(terms, hyps, limit=64):
    """enumerate feasible truth assignments of the ite conditions in `terms`.
    returns list of (case_hyps, substituted_terms)"""
    from . import backends
    from . import terms as tm

    def conds_of(ts):
        seen = []
        for t in tm.postorder(ts):
            if t.op == "ite" and not any(t.args[0] is s for s in seen):
                seen.append(t.args[0])
        return seen

    out = []
    work = [([], terms)]
    while work:
        case, ts = work.pop()
        cs = conds_of(ts)
        if not cs:
            out.append((case, ts))
            if len(out) > limit:
                raise RuntimeError("case explosion")
            continue
        # innermost condition first (post-order): deciding it simplifies the conditions that contain it
        c = cs[0]
        for val in (True, False):
            lit = c if val else tm.not_(c)
            if not backends.feasible(hyps + case + [lit]):
                continue
            ts2 = _assume(ts, c, val)
            work.append((case + [lit], ts2))
    return out


def _assume(ts, c, val):
    from . import terms as tm

    memo = {}
    for t in tm.postorder(ts):
        if not t.args or t.op in ("c", "v", "pi", "true", "false"):
            memo[t.id] = t
            continue
        if t.op == "ite" and t.args[0] is c:
            memo[t.id] = memo[t.args[1].id] if val else memo[t.args[2].id]
            continue
        na = tuple(memo[a.id] if isinstance(a, tm.T) else a for a in t.args)
        memo[t.id] = t if all(x is y for x, y in zip(na, t.args)) else tm.rebuild(t.op, na)
    return [memo[r.id] for r in ts]


def prove_eq(lhs, rhs, hyps, opts):
    """-> (status, backend, detail).  lhs, rhs real terms."""
    from . import backends, ring, tower
    from . import terms as tm

    backend = opts.get("backend", "auto")
    goal = tm.add(lhs, tm.neg(rhs))
    if goal.op == "c":
        return ("proved", "syntactic", "") if goal.args[0] == 0 else ("refuted", "syntactic", "constant %s" % goal.args[0])
    t0 = time.time()
    details = []
    if backend in ("auto", "ring"):
        try:
            cases = _split_cases([goal], hyps)
        except RuntimeError as ex:
            cases = None
            details.append(str(ex))
        if cases is not None:
            allz = True
            for case, (g,) in cases:
                if g.op == "c" and g.args[0] == 0:
                    continue
                ctrl = None
                if not opts.get("no_control"):
                    ats = [a_ for a_ in tm.atoms([g]) if a_.op == "v"]
                    if ats:
                        ctrl = tm.add(g, ats[0])  # negative control: goal shifted by a free atom must not be zero
                hy_case = hyps + case
                # branch conditions that are equalities affine in a plain variable (e.g. an event weight that is exactly minus the sum
                # of the others) are used as rewrite rules: the normaliser cannot use hypotheses otherwise
                g = _rewrite_by_equalities(g, case, tower, tm)
                if g.op == "c" and g.args[0] == 0:
                    continue

                def oracle(t, hy_case=hy_case):
                    # sign of a rational function under the hypotheses (used for sqrt(r^2) = |r|)
                    v = backends.prove(hy_case, tm.le(tm.ZERO, t), rlimit=2000000, use_cvc5=False)
                    if v.status == "proved":
                        return 1
                    v = backends.prove(hy_case, tm.le(t, tm.ZERO), rlimit=2000000, use_cvc5=False)
                    if v.status == "proved":
                        return -1
                    return None

                # fast path first: without the sign oracle the tower lacks sqrt(r^2) = |r| but whatever it normalises to zero is zero;
                # the oracle (z3 calls + square-free factorisation of every radicand) is only paid for when that is not enough
                st, info = tower.is_zero(g, budget_s=opts.get("ring_budget", 60.0), control=ctrl, sign_oracle=None)
                if st not in ("zero", "unsound"):
                    # a cheap solver attempt (hypotheses available there) before the expensive oracle pass
                    vq = backends.prove(hy_case, tm.eq(g, tm.ZERO), rlimit=1500000, use_cvc5=False)
                    if vq.status == "proved":
                        continue
                    st, info = tower.is_zero(g, budget_s=opts.get("ring_budget", 60.0), control=ctrl, sign_oracle=oracle)
                if st == "unsound":
                    return "error", "ring", "negative control normalised to zero: back end unsound"
                if st == "gaveup":
                    st, info = ring.is_zero(g, budget_s=opts.get("ring_budget", 60.0))
                if st != "zero":
                    allz = False
                    info.pop("side_conditions", None)
                    details.append("ring %s %s" % (st, info))
                    break
                for sc in info.get("side_conditions", []):
                    # cos/sin(atan2(y,x)) = x/r, y/r needs r != 0
                    v = backends.prove(hyps + case, tm.not_(tm.eq(sc, tm.ZERO)), rlimit=opts.get("rlimit", backends.RLIMIT), use_cvc5=False)
                    if v.status != "proved":
                        allz = False
                        details.append("ring side condition (atan2 argument non-zero) not proved: %s" % tm.short(sc, 80))
                        break
                if not allz:
                    break
            if allz:
                return "proved", "ring", "%d case(s)" % len(cases)
    if backend in ("auto", "z3"):
        v = backends.prove(hyps, tm.eq(lhs, rhs), rlimit=opts.get("rlimit", backends.RLIMIT))
        if v.status == "proved":
            return "proved", v.backend, ""
        if v.status == "refuted":
            return "refuted", "z3", "model %s" % v.model
        details.append(v.detail)
    return "undecided", "-", "; ".join(details)


def _sum_of_squares(t, tm, depth=0):
    """syntactic certificate: t is built from +, non-negative constants, squares x*x (the same node twice), -(x * -x), and products of such"""
    if t.op == "c":
        return t.args[0] >= 0
    if t.op == "+":
        return _sum_of_squares(t.args[0], tm) and _sum_of_squares(t.args[1], tm)
    if t.op == "*":
        a, b = t.args
        if a is b:
            return True
        return _sum_of_squares(a, tm) and _sum_of_squares(b, tm)
    if t.op == "neg":
        u = t.args[0]
        if u.op == "*":
            a, b = u.args
            if (b.op == "neg" and b.args[0] is a) or (a.op == "neg" and a.args[0] is b):
                return True
        if u.op == "c":
            return u.args[0] <= 0
    return False


def _manifestly_nonneg_claim(claim, tm):
    """claim of the form 0 <= t with t a syntactic sum of squares"""
    return claim.op == "<=" and claim.args[0].op == "c" and claim.args[0].args[0] == 0 and _sum_of_squares(claim.args[1], tm)


def _rewrite_by_equalities(goal, case_hyps, tower, tm):
    """substitute v := rest for every case hypothesis `a == b` whose difference is  c*v + rest  with c a non-zero constant, v a plain
    variable that does not occur in rest (sound: under the hypothesis the two goals are equal)"""
    for h in case_hyps:
        if h.op != "==":
            continue
        d = tm.add(h.args[0], tm.neg(h.args[1]))
        try:
            tw = tower.Tower([d], 5)
            e = tw.root_elems()[0]
        except Exception:
            continue
        if e.d or e.P == 0:
            continue
        nv = len(tw.gens)
        for gi in range(nv):
            at = tw.atom_of_gen.get(gi)
            if at is None or at.op != "v":
                continue
            hits = [(m, c) for m, c in e.P.iterterms() if m[gi]]
            if len(hits) != 1:
                continue
            m, c = hits[0]
            if m[gi] != 1 or sum(m) != 1:
                continue
            rest = e.P - tw.gens[gi].mul_ground(c)
            if any(mm[gi] for mm, _ in rest.iterterms()):
                continue
            from fractions import Fraction

            expr = tm.mul(tm.neg(tw.poly_term(rest, {})), tm.const(Fraction(1, int(c))))
            goal = tm.subst([goal], {at: expr})[0]
            break
    return goal


def run_sym_group(spec, tier, seed):
    """execute one contract group in shadow mode; returns list[Result]"""
    from . import backends, paths
    from . import terms as tm

    ctx = SymCtx(spec, tier, seed)
    results = []
    t_start = time.time()

    def body():
        ctx._claims_now = []
        ctx.pre_mark = len(ctx.pre)
        spec.fn(ctx)
        return ctx._claims_now

    # pre-conditions are collected during the run; Python-level branching on symbolic values
    # inside the repository function is explored path by path.
    # First run discovers inputs and preconditions (paths need them for feasibility checks).
    class _PreView(list):
        pass

    leaves = paths.explore(body, pre=ctx.pre)
    rng = random.Random(seed * 7919 + int(hashlib.sha256(spec.name.encode()).hexdigest()[:8], 16))
    K = spec.opts.get("samples", 24 if tier == "quick" else 96)
    n_claims = 0
    for li, (pc, claims) in enumerate(leaves):
        hyps = list(ctx.pre) + list(ctx.lemmas) + list(pc)
        ptag = "" if len(leaves) == 1 else "@path%d" % li
        # reachability (vacuity guard 2.8.2)
        t0 = time.time()
        feas = backends.check_sat(hyps, rlimit=backends.RLIMIT)[0]
        results.append(mk_result(spec.name + "/reachable" + ptag, "precondition (and path condition) is satisfiable",
                                 "P", "proved" if feas == "sat" else ("undecided" if feas == "unknown" else "refuted"),
                                 "z3", time.time() - t0, "" if feas == "sat" else "pre is %s" % feas))
        # numeric points satisfying the hypotheses
        pts = []
        tries = 0
        while len(pts) < K and tries < K * 50:
            tries += 1
            env = _sample_env(ctx.inputs, rng)
            try:
                ok = all(tm.eval_float([h], env, interpret_uf=True)[0] == True for h in hyps)  # noqa: E712
            except KeyError:
                ok = True
            if ok:
                pts.append(env)
        pts = pts + _boundary_points(claims, hyps, pts[:6], tm)
        for kind, name, a, b, opts in claims:
            import numpy as np

            flat_a = a.reshape(-1)
            flat_b = b.reshape(-1) if b is not None else [None] * flat_a.size
            idxs = list(np.ndindex(*a.shape)) if a.shape else [()]
            for idx, ea, eb in zip(idxs, flat_a, flat_b):
                comps = []
                if kind == "eq":
                    ea, eb = (ea if isinstance(ea, tm.C) else tm._l(ea)), (eb if isinstance(eb, tm.C) else tm._l(eb))
                    if isinstance(ea, tm.C) or isinstance(eb, tm.C):
                        ea, eb = tm.cx(ea), tm.cx(eb)
                        comps = [(".re", ea.re, eb.re), (".im", ea.im, eb.im)]
                    else:
                        comps = [("", ea, eb)]
                else:
                    comps = [("", tm._l(ea), None)]
                for sfx, l, r in comps:
                    n_claims += 1
                    oname = "%s/%s%s%s%s" % (spec.name, name, "".join("[%d]" % i for i in idx), sfx, ptag)
                    results.append(_discharge_guarded(oname, kind, l, r, hyps, pts, opts, spec))
    if n_claims == 0:
        results.append(mk_result(spec.name + "/nonvacuous", "contract generates at least one obligation", "P", "error", "-",
                                 0, "zero obligations generated"))
    for r in results:
        r["group"] = spec.name
        r["prop"] = spec.prop
        r.setdefault("func", spec.funcs[0] if spec.funcs else None)
    return results


class _WallClock(Exception):
    pass


def _discharge_guarded(oname, kind, l, r, hyps, pts, opts, spec):
    """_discharge under a generous wall-clock guard (VT_OBLIGATION_WALL_S, default 600 s): the exact polynomial arithmetic of the normaliser has no resource limit
    of its own, and a changed function body can make a term explode.  A guard that fires gives `undecided` (never a refutation), so a locked obligation is then reported
    as no longer discharged instead of hanging the check."""
    import signal

    budget = int(opts.get("wall_s", os.environ.get("VT_OBLIGATION_WALL_S", "600")))
    if not hasattr(signal, "SIGALRM") or budget <= 0:
        return _discharge(oname, kind, l, r, hyps, pts, opts, spec)

    def on_alarm(signum, frame):
        raise _WallClock()

    old = signal.signal(signal.SIGALRM, on_alarm)
    signal.alarm(budget)
    t0 = time.time()
    try:
        return _discharge(oname, kind, l, r, hyps, pts, opts, spec)
    except _WallClock:
        clause = opts.get("clause") or oname
        return mk_result(oname, clause, "P", "undecided", "-", time.time() - t0, "wall-clock guard of %d s fired (exact arithmetic over budget)" % budget)
    finally:
        signal.alarm(0)
        signal.signal(signal.SIGALRM, old)


def _boundary_points(claims, hyps, base_pts, tm, limit=48):
    """sample points ON the branch boundaries x == y of the tf.where conditions occurring in the claims (random floats never hit them):
    for a base point and a condition `a == b`, one variable is moved (secant step, exact when a - b is affine in it with slope +-1,
    e.g. an event weight set to minus the sum of the others) so that the condition holds exactly; kept only if the hypotheses still hold"""
    roots = []
    for kind, name, a, b, opts in claims:
        for arr in (a, b):
            if arr is None:
                continue
            for e in arr.reshape(-1):
                if isinstance(e, tm.C):
                    roots += [e.re, e.im]
                else:
                    roots.append(tm._l(e))
    conds = []
    seen = set()
    for t in tm.postorder(roots):
        if t.op == "ite" and t.args[0].op == "==" and t.args[0].id not in seen:
            seen.add(t.args[0].id)
            conds.append(t.args[0])
    out = []
    for c in conds[:16]:
        g = tm.add(c.args[0], tm.neg(c.args[1]))
        names = sorted({x.args[0] for x in tm.postorder([g]) if x.op == "v"})
        for env in base_pts:
            for vn in names[:4]:
                if len(out) >= limit:
                    return out
                try:
                    e0 = dict(env)
                    g0 = tm.eval_float([g], e0, interpret_uf=True)[0]
                    e1 = dict(env)
                    e1[vn] = env[vn] + 1.0
                    g1 = tm.eval_float([g], e1, interpret_uf=True)[0]
                    slope = g1 - g0
                    if not (slope == slope) or slope == 0:
                        continue
                    e2 = dict(env)
                    e2[vn] = env[vn] - g0 / slope
                    if tm.eval_float([c], e2, interpret_uf=True)[0] != True:  # noqa: E712
                        continue
                    if all(tm.eval_float([h], e2, interpret_uf=True)[0] == True for h in hyps):  # noqa: E712
                        out.append(e2)
                except (KeyError, TypeError, ZeroDivisionError):
                    continue
    return out


def _rel_err(x, y):
    return abs(x - y) / (1e-12 + max(abs(x), abs(y), 1.0) * 1.0)


def _discharge(oname, kind, l, r, hyps, pts, opts, spec):
    from . import backends
    from . import terms as tm

    t0 = time.time()
    tol = opts.get("num_tol", 1e-7)
    clause = opts.get("clause") or (("%s == %s" % (tm.short(l, 70), tm.short(r, 70))) if kind == "eq" else tm.short(l, 140))
    # 0. numeric pre-filter on points satisfying the hypotheses (fast refutation with a witness)
    for env in pts:
        try:
            if kind == "eq":
                x, y = tm.eval_float([l, r], env, interpret_uf=True)
                bad = (x != x) or (y != y) or _rel_err(x, y) > tol
            else:
                (x,) = tm.eval_float([l], env, interpret_uf=True)
                bad = x is False or x == False  # noqa: E712
        except KeyError:
            continue
        if bad:
            return mk_result(oname, clause, "P", "refuted", "numeric", time.time() - t0,
                             "claim fails at a sampled point satisfying the precondition: %s%s"
                             % ((x, y) if kind == "eq" else x, " (uninterpreted functions uf_*: interpretation terms.uf_interpretation)"
                                if any(t.op == "f" and str(t.args[0]).startswith("uf_") for t in tm.postorder([l] + ([r] if r is not None else []))) else ""),
                             witness=env)
    # 1. case split on the ite (tf.where) conditions, pruned by the hypotheses
    roots = [l] + ([r] if r is not None else [])
    try:
        cases = _split_cases(roots, hyps)
    except RuntimeError as ex:
        return mk_result(oname, clause, "P", "undecided", "-", time.time() - t0, str(ex))
    backends_used = []
    for case, terms in cases:
        hy = hyps + case
        # 2. definedness of the claim terms (sqrt/div/acos/log domains), guard-aware
        dfn = tm.definedness(terms)
        if dfn is not tm.TRUE and not opts.get("skip_def"):
            v = backends.prove(hy, dfn, rlimit=opts.get("rlimit", backends.RLIMIT))
            if v.status == "refuted":
                return mk_result(oname, clause, "P", "refuted", "z3", time.time() - t0,
                                 "definedness: a sqrt/division/acos argument leaves its domain", witness=v.model)
            if v.status != "proved":
                return mk_result(oname, clause, "P", "undecided", "z3", time.time() - t0, "definedness undecided: " + v.detail)
            backends_used.append(v.backend)
        # 3. proof
        if kind == "eq":
            st, be, det = prove_eq(terms[0], terms[1], hy, opts)
            if st == "proved" and be != "ring" and not opts.get("no_control"):
                # negative control: the same goal shifted by a non-zero atom must NOT be provable
                ats = [a for a in tm.atoms(terms) if a.op == "v"]
                if ats:
                    st2, be2, _ = prove_eq(tm.add(terms[0], ats[0]), terms[1], hy + [tm.not_(tm.eq(ats[0], tm.ZERO))],
                                           dict(opts, ring_budget=20, rlimit=1000000, backend="ring" if be == "ring" else "z3"))
                    if st2 == "proved":
                        return mk_result(oname, clause, "P", "error", be, time.time() - t0, "negative control was proved: back end unsound")
            if st != "proved":
                return mk_result(oname, clause, "P", st, be, time.time() - t0, det)
            backends_used.append(be)
        else:
            if _manifestly_nonneg_claim(terms[0], tm):
                backends_used.append("syntactic-sos")
                continue
            v = backends.prove(hy, terms[0], rlimit=opts.get("rlimit", backends.RLIMIT))
            if v.status != "proved":
                return mk_result(oname, clause, "P", v.status, v.backend, time.time() - t0, v.detail, witness=v.model)
            backends_used.append(v.backend)
    main = [b for b in backends_used if b not in ("syntactic",)] or ["syntactic"]
    be = "ring" if "ring" in main else main[-1]
    return mk_result(oname, clause, "P", "proved", be, time.time() - t0, "%d case(s); back ends %s" % (len(cases), sorted(set(backends_used))))


# ---------------------------------------------------------------------------------------------


class NumCtx:
    """native mode: the same contract text evaluated on real tensors (replay / differential)"""

    mode = "num"

    def __init__(self, spec, env, tol=1e-7):
        from . import loader

        self.spec = spec
        self.tf = loader.native()
        self.env = env
        self.tol = tol
        self.failures = []
        self.checked = 0
        self.values = {}
        self.tier = "quick"
        self.seed = 0

    def mod(self, name):
        from . import loader

        return loader.mod(name)

    def real(self, name, shape=(), sample=None):
        import numpy as np

        arr = np.zeros(shape, dtype=np.float64)
        for idx in np.ndindex(*shape):
            k = name + "".join("_%d" % i for i in idx)
            if k not in self.env or self.env[k] is None:
                raise KeyError(k)
            arr[idx] = self.env[k]
        return self.tf.constant(arr, dtype=self.tf.float64)

    def scalar(self, name, sample=None):
        return self.real(name, (), sample)

    def require(self, cond, label=""):
        import numpy as np

        if not bool(np.all(np.asarray(cond))):
            raise Inapplicable(label)

    def lemma(self, cond):
        pass

    def eq(self, name, lhs, rhs, **opts):
        import numpy as np

        a = np.asarray(lhs)
        b = np.asarray(rhs)
        self.checked += 1
        self.values[name] = a.tolist() if not np.iscomplexobj(a) else [str(z) for z in a.reshape(-1)]
        tol = opts.get("num_tol", self.tol)
        ok = np.all(np.isfinite(a)) and np.all(np.isfinite(b)) and np.allclose(a, b, rtol=tol, atol=tol * 1e-3 + 1e-12)
        if not ok:
            self.failures.append((name, "lhs=%s rhs=%s" % (np.array2string(a, precision=17), np.array2string(b, precision=17))))

    def holds(self, name, cond, **opts):
        import numpy as np

        self.checked += 1
        if not bool(np.all(np.asarray(cond))):
            self.failures.append((name, "condition false: %s" % (np.asarray(cond),)))

    def const(self, x):
        return x


def run_native(spec, env):
    """-> dict(applicable, failures, checked)"""
    ctx = NumCtx(spec, env)
    try:
        spec.fn(ctx)
    except Inapplicable as ex:
        return {"applicable": False, "why": str(ex), "failures": [], "checked": 0}
    return {"applicable": True, "failures": ctx.failures, "checked": ctx.checked}


# ---------------------------------------------------------------------------------------------


class PlainCtx:
    """ground / bounded groups: the group emits results itself via ctx.ok / ctx.fail"""

    mode = "plain"

    def __init__(self, spec, tier, seed):
        self.spec = spec
        self.tier = tier
        self.seed = seed
        self.results = []
        self.rng = random.Random(seed * 104729 + int(hashlib.sha256(spec.name.encode()).hexdigest()[:8], 16))
        self.evaluations = 0
        self.distinct = set()
        self.samples = []

    def mod(self, name):
        from . import loader

        return loader.mod(name)

    def check(self, name, ok, clause="", detail="", witness=None, backend=None, concrete_input=None):
        """record one (ground or bounded) obligation.  concrete_input: for symbolic (kind P) plain groups, whether the witness is a
        concrete failing input of the real code (default: True for G/B groups, False for P groups)"""
        kind = self.spec.kind
        st = ("proved" if kind in ("G", "P") else "held") if ok else "refuted"
        self.results.append(mk_result("%s/%s" % (self.spec.name, name), clause, kind, st,
                                      backend or ("ground-eval" if kind in ("G", "P") else "runtime-contract"), 0.0,
                                      "" if ok else detail, witness=None if ok else witness))
        self.results[-1]["concrete_input"] = (kind in ("G", "B")) if concrete_input is None else bool(concrete_input)

    def count(self, key=None, sample=None):
        self.evaluations += 1
        if key is not None:
            self.distinct.add(key)
        if sample is not None and len(self.samples) < 5:
            self.samples.append(sample)


def run_plain_group(spec, tier, seed):
    from . import loader

    if spec.env == "tf":
        loader.native()
    else:
        loader.shadow()
    ctx = PlainCtx(spec, tier, seed)
    t0 = time.time()
    spec.fn(ctx)
    dt = time.time() - t0
    if not ctx.results:
        ctx.results.append(mk_result(spec.name + "/nonvacuous", "group generates obligations", spec.kind, "error", "-", 0, "zero obligations"))
    n = len(ctx.results)
    for r in ctx.results:
        r["group"] = spec.name
        r["prop"] = spec.prop
        r["time_s"] = round(dt / n, 5)
        r.setdefault("func", spec.funcs[0] if spec.funcs else None)
        if r.get("func") is None and spec.funcs:
            r["func"] = spec.funcs[0]
    meta = {"group": spec.name, "evaluations": ctx.evaluations, "distinct": len(ctx.distinct), "samples": ctx.samples, "kind": spec.kind,
            "bound": spec.opts.get("bound", "")}
    return ctx.results, meta


def run_group(prop, name, tier, seed):
    """worker entry point"""
    import importlib

    importlib.import_module("vt.props." + prop)
    spec = GROUPS[(prop, name)]
    t0 = time.time()
    # contracts may replace module-level names of the shadow modules by callee summaries (sidecar monkeypatching);
    # worker processes are reused, so the module namespaces are restored after every group
    import sys as _sys

    saved = {k: dict(m.__dict__) for k, m in list(_sys.modules.items()) if k.startswith("tf_pwa") and m is not None and hasattr(m, "__dict__")}
    try:
        return _run_group_inner(spec, prop, name, tier, seed, t0)
    finally:
        # modules first imported during this group may have been patched before we could snapshot them: drop them (fresh import next time)
        for k in [k for k in list(_sys.modules) if k.startswith("tf_pwa.") and k not in saved]:
            del _sys.modules[k]
        for k, d in saved.items():
            m = _sys.modules.get(k)
            if m is None:
                continue
            cur = m.__dict__
            for kk in list(cur):
                if kk not in d:
                    del cur[kk]
            for kk, vv in d.items():
                if cur.get(kk, None) is not vv:
                    cur[kk] = vv


def _run_group_inner(spec, prop, name, tier, seed, t0):
    try:
        if spec.kind == "P" and spec.env == "shim" and not spec.opts.get("plain"):
            res, meta = run_sym_group(spec, tier, seed), None
        else:
            res, meta = run_plain_group(spec, tier, seed)
    except Exception:
        tb = traceback.format_exc()
        res = [mk_result(name + "/crash", "group executes", spec.kind, "error", "-", time.time() - t0, tb)]
        for r in res:
            r["group"] = name
            r["prop"] = prop
            r["func"] = spec.funcs[0] if spec.funcs else None
        meta = None
    return {"group": name, "results": res, "meta": meta, "wall_s": time.time() - t0}

"""Canonical arithmetic in a tower of square-root extensions of Q(x1..xn)  (ring normaliser, 2nd generation).

Element = (P, dexp): polynomial numerator over QQ in the generators (free atoms and radical generators), reduced
to degree <= 1 in every radical, over a denominator kept as a *factored monomial* in registered radical-free
denominator polynomials D_j (dexp[j] = exponent).  No multivariate gcd is ever computed: only polynomial
multiplication, exact division attempts by registered denominators, and the rewriting s^2 -> N.
Zero test: P == 0 (sound; complete unless a radicand is a hidden square in the lower tower, in which case an
inverse meets a zero divisor and we give up).  Radicals whose radicands coincide (or differ by a positive rational
square) are merged; sqrt(1) = 1.  Only ring identities and s^2 = N (valid where the sqrt is defined) are used.
"""
from __future__ import annotations

import math
import time
from fractions import Fraction

from sympy import QQ, ZZ
from sympy.polys.rings import ring as _ring

from . import terms as tm
from .ring import GaveUp, TrigRewriter, time_limit


class El:
    __slots__ = ("P", "d", "q")

    def __init__(self, P, d, q=1):
        self.P = P  # polynomial over ZZ
        self.d = d  # dict {denominator index: exponent > 0}
        self.q = q  # positive integer denominator


class Tower:
    """value of El = P / (q * prod_j D_j^d[j]);  all polynomial arithmetic is over ZZ (python ints: fast)"""

    def __init__(self, roots, budget_s=60.0, rewrite_trig=True, sign_oracle=None):
        self.t0 = time.time()
        self.budget = budget_s
        self.sign_oracle = sign_oracle  # callable(term) -> +1 / -1 / None : proven sign of a term under the hypotheses
        self.hidden_squares = 0
        self.side_conditions = []
        if rewrite_trig:
            tr = TrigRewriter(roots)
            roots = tr.rewrite(roots)
            self.side_conditions = tr.side_conditions
        self.roots = roots
        self.order = tm.postorder(roots)
        self.atom_terms = []
        for t in self.order:
            if t.op in ("ite", "<", "<=", "==", "and", "or", "not", "true", "false"):
                raise GaveUp("boolean structure in ring goal (split cases first)")
            if t.op in ("v", "pi", "sqrt", "f"):
                self.atom_terms.append(t)
        names = ["g%d" % i for i in range(len(self.atom_terms))] or ["g_dummy"]
        R = _ring(names, ZZ)
        self.R = R[0]
        self.gens = list(R[1:])
        self.gidx = {a.id: i for i, a in enumerate(self.atom_terms)}
        self.rad = {}  # generator index -> radicand El
        self.rad_order = []
        self.dens = []  # registered denominator polynomials (radical-free, primitive, positive leading coefficient)
        self.den_key = {}
        self.elem = {}
        self.atom_of_gen = {i: a for i, a in enumerate(self.atom_terms)}
        self.one = self.R(1)
        self.fatoms = []
        import random as _random

        rr = _random.Random(len(self.atom_terms) * 7919 + 13)
        self.pt = [rr.randrange(2**20, 2**21) for _ in names]
        self.den_val = []
        self._build()

    def _eval_int(self, P):
        pt = self.pt
        tot = 0
        pw = {}
        for m, c in P.iterterms():
            v = int(c)
            for gi, e in enumerate(m):
                if e:
                    k = (gi, e)
                    if k not in pw:
                        pw[k] = pt[gi] ** e
                    v *= pw[k]
            tot += v
        return tot

    # ------------------------------------------------------------------ basics
    def _tick(self):
        if time.time() - self.t0 > self.budget:
            raise GaveUp("tower normaliser over budget (%.0fs)" % self.budget)

    def const(self, q):
        return El(self.R(q.numerator), {}, q.denominator)

    def _dprod(self, dexp):
        p = self.one
        for j, e in dexp.items():
            if e > 0:
                p = p * self.dens[j] ** e
        return p

    def _normalize(self, P, d, q):
        """cancel registered denominators that divide the numerator exactly, and the integer content against q"""
        if P == 0:
            return El(P, {}, 1)
        d = {j: e for j, e in d.items() if e > 0}
        pv = None
        for j in list(d):
            D = self.dens[j]
            while d.get(j, 0) > 0:
                self._tick()
                # necessary condition for D | P in ZZ[x] (D primitive): D(pt) | P(pt) at an integer point
                if pv is None:
                    pv = self._eval_int(P)
                if self.den_val[j] == 0 or pv % self.den_val[j] != 0:
                    break
                qq, r = P.div(D)
                if r != 0:
                    break
                P = qq
                pv = None
                d[j] -= 1
            if d.get(j) == 0:
                del d[j]
        if q != 1:
            g = math.gcd(int(P.content()), q)
            if g > 1:
                P = P.quo_ground(g)
                q //= g
        return El(P, d, q)

    def add(self, a, b):
        if a.P == 0:
            return b
        if b.P == 0:
            return a
        keys = set(a.d) | set(b.d)
        common = {j: max(a.d.get(j, 0), b.d.get(j, 0)) for j in keys}
        fa = self._dprod({j: common[j] - a.d.get(j, 0) for j in keys})
        fb = self._dprod({j: common[j] - b.d.get(j, 0) for j in keys})
        g = math.gcd(a.q, b.q)
        P = (a.P * fa).mul_ground(b.q // g) + (b.P * fb).mul_ground(a.q // g)
        return self._normalize(P, common, a.q // g * b.q)

    def neg(self, a):
        return El(-a.P, a.d, a.q)

    def _split(self, P, gi):
        parts = {}
        for m, c in P.iterterms():
            dg = m[gi]
            m2 = m[:gi] + (0,) + m[gi + 1:]
            parts.setdefault(dg, {})[m2] = c
        return {dg: self.R.from_dict(mono) for dg, mono in parts.items()}

    def _maxdeg(self, P, gi):
        md = 0
        for m in P.itermonoms():
            if m[gi] > md:
                md = m[gi]
        return md

    def reduce(self, P, d, q=1):
        """rewrite s^2 -> N for all radicals (youngest first); returns El"""
        for gi in reversed(self.rad_order):
            self._tick()
            md = self._maxdeg(P, gi)
            if md < 2:
                continue
            N = self.rad[gi]
            hmax = md // 2
            parts = self._split(P, gi)
            g = self.gens[gi]
            Nd = self._dprod(N.d).mul_ground(N.q)
            acc = self.R(0)
            for dg, c in parts.items():
                h, par = divmod(dg, 2)
                term = c * N.P**h * Nd ** (hmax - h)
                if par:
                    term = term * g
                acc = acc + term
            P = acc
            d = dict(d)
            for j, e in N.d.items():
                d[j] = d.get(j, 0) + e * hmax
            q = q * N.q**hmax
        return self._normalize(P, d, q)

    def mul(self, a, b):
        if a.P == 0 or b.P == 0:
            return El(self.R(0), {}, 1)
        d = dict(a.d)
        for j, e in b.d.items():
            d[j] = d.get(j, 0) + e
        return self.reduce(a.P * b.P, d, a.q * b.q)

    def _youngest_rad(self, P):
        for gi in reversed(self.rad_order):
            if self._maxdeg(P, gi) > 0:
                return gi
        return None

    def _register_den(self, P):
        """P radical-free, non-constant ZZ polynomial -> (index, integer c) with P = c * D_index, D primitive, LC(D) > 0"""
        c = int(P.content())
        if P.LC < 0:
            c = -c
        Pm = P.quo_ground(c)
        j = self.den_key.get(Pm)
        if j is None:
            j = len(self.dens)
            self.dens.append(Pm)
            self.den_val.append(self._eval_int(Pm))
            self.den_key[Pm] = j
        return j, c

    def inv(self, a):
        if a.P == 0:
            raise GaveUp("division by an identically zero term")
        num = El(self._dprod(a.d).mul_ground(a.q), {}, 1)
        P = a.P
        while True:
            self._tick()
            gi = self._youngest_rad(P)
            if gi is None:
                break
            parts = self._split(P, gi)
            A = parts.get(0, self.R(0))
            B = parts.get(1, self.R(0))
            g = self.gens[gi]
            num = self.mul(num, El(A - B * g, {}, 1))
            N = self.rad[gi]
            Nd = self._dprod(N.d).mul_ground(N.q)
            # (A^2 - B^2 N) * Nd  =  A^2 Nd - B^2 N.P
            nn = self.reduce(A * A * Nd - B * B * N.P, {}, 1)
            if nn.P == 0:
                raise GaveUp("zero divisor: a radicand is a hidden square in the lower tower")
            # 1/P = conj / (A^2 - B^2 N) = conj * Nd / (nn)  and  1/nn = nn.q * prod(D^nn.d) / nn.P
            num = self.mul(num, El((Nd * self._dprod(nn.d)).mul_ground(nn.q), {}, 1))
            P = nn.P
        if P.is_ground:
            c = int(P.LC)
            if c < 0:
                return self._normalize(-num.P, num.d, num.q * (-c))
            return self._normalize(num.P, num.d, num.q * c)
        j, c = self._register_den(P)
        d = dict(num.d)
        d[j] = d.get(j, 0) + 1
        if c < 0:
            return self._normalize(-num.P, d, num.q * (-c))
        return self._normalize(num.P, d, num.q * c)

    def _cross(self, a, b):
        keys = set(a.d) | set(b.d)
        fa = self._dprod({j: max(b.d.get(j, 0) - a.d.get(j, 0), 0) for j in keys})
        fb = self._dprod({j: max(a.d.get(j, 0) - b.d.get(j, 0), 0) for j in keys})
        return (a.P * fa).mul_ground(b.q), (b.P * fb).mul_ground(a.q)

    def equal(self, a, b):
        L, Rr = self._cross(a, b)
        return L == Rr

    def ratio_const(self, a, b):
        """a / b if it is a rational constant, else None"""
        if a.P == 0 or b.P == 0:
            return None
        if len(a.P) * (1 if not b.d else 4) > 4000:
            return None
        L, Rr = self._cross(a, b)
        if len(L) != len(Rr):
            return None
        c = Fraction(int(L.LC), int(Rr.LC))
        if L.mul_ground(c.denominator) == Rr.mul_ground(c.numerator):
            return c
        return None

    # ------------------------------------------------------------------ construction
    def _new_radical(self, t, N):
        one = El(self.one, {}, 1)
        if N.P == 0:
            return El(self.R(0), {}, 1)
        if self.equal(N, one):
            return one
        if N.P.is_ground and not N.d:
            c = Fraction(int(N.P.LC), N.q)
            if c > 0:
                rn, rd = math.isqrt(c.numerator), math.isqrt(c.denominator)
                if rn * rn == c.numerator and rd * rd == c.denominator:
                    return self.const(Fraction(rn, rd))
        for gj in self.rad_order:
            if self.atom_of_gen[gj].op != "sqrt":
                continue
            c = self.ratio_const(N, self.rad[gj])
            if c is not None and c > 0:
                rn, rd = math.isqrt(c.numerator), math.isqrt(c.denominator)
                if rn * rn == c.numerator and rd * rd == c.denominator:
                    return El(self.gens[gj].mul_ground(rn), {}, rd)
        root = self._perfect_square_root(N)
        if root is not None:
            self.hidden_squares += 1
            return root
        gi = self.gidx[t.id]
        self.rad[gi] = N
        self.rad_order.append(gi)
        return El(self.gens[gi], {}, 1)

    def _perfect_square_root(self, N):
        """if the radical-free radicand N is the square of a rational function r whose sign the oracle can prove, return |r|"""
        if self.sign_oracle is None or self._youngest_rad(N.P) is not None or len(N.P) > 400:
            return None
        try:
            # N = P / (q prod D^e) = P q prod D^(e mod 2) / (q prod D^ceil(e/2))^2 ... use  N = [P * q * prod D^(e mod 2)] / [q * prod D^((e + e mod 2)/2)]^2
            odd = {j: e % 2 for j, e in N.d.items()}
            num = (N.P * self._dprod(odd)).mul_ground(N.q)
            c, facs = num.sqf_list()
            c = int(c)
            if c <= 0:
                return None
            rc = math.isqrt(c)
            if rc * rc != c or any(m % 2 for _, m in facs):
                return None
            rootP = self.R(rc)
            for f, m in facs:
                rootP = rootP * f ** (m // 2)
            den = {j: (e + e % 2) // 2 for j, e in N.d.items()}
            root = self._normalize(rootP, den, N.q)
            sgn = self.sign_oracle(self.to_term(root))
            if sgn is None:
                return None
            return root if sgn > 0 else self.neg(root)
        except Exception:
            return None

    def _build(self):
        el = self.elem
        for t in self.order:
            self._tick()
            op = t.op
            if op == "c":
                el[t.id] = self.const(t.args[0])
            elif op in ("v", "pi"):
                el[t.id] = El(self.gens[self.gidx[t.id]], {}, 1)
            elif op == "+":
                el[t.id] = self.add(el[t.args[0].id], el[t.args[1].id])
            elif op == "*":
                el[t.id] = self.mul(el[t.args[0].id], el[t.args[1].id])
            elif op == "/":
                el[t.id] = self.mul(el[t.args[0].id], self.inv(el[t.args[1].id]))
            elif op == "neg":
                el[t.id] = self.neg(el[t.args[0].id])
            elif op == "sqrt":
                el[t.id] = self._new_radical(t, el[t.args[0].id])
            elif op == "f":
                gi = self.gidx[t.id]
                # congruence: f(a) and f(b) are the same generator when a and b have the same normal form
                argel = [el[a.id] for a in t.args[1:]]
                alias = None
                for (nm, other_args, ogi) in self.fatoms:
                    if nm == t.args[0] and len(other_args) == len(argel) and all(self.equal(x, y) for x, y in zip(argel, other_args)):
                        alias = ogi
                        break
                if alias is not None:
                    el[t.id] = El(self.gens[alias], {}, 1)
                    continue
                self.fatoms.append((t.args[0], argel, gi))
                el[t.id] = El(self.gens[gi], {}, 1)
                if t.args[0] == "sinu":
                    c = tm.fn("cosu", t.args[1])
                    if c.id in self.gidx:
                        cg = self.gens[self.gidx[c.id]]
                        self.rad[gi] = El(1 - cg * cg, {}, 1)
                        self.rad_order.append(gi)
            else:
                raise GaveUp("op %s" % op)

    def root_elems(self):
        return [self.elem[r.id] for r in self.roots]

    # ------------------------------------------------------------------ back to terms
    def gen_term(self, gi, memo):
        if gi in memo:
            return memo[gi]
        a = self.atom_of_gen[gi]
        if a.op == "sqrt" and gi in self.rad:
            t = tm.sqrt_(self.to_term(self.rad[gi], memo))
        else:
            t = a
        memo[gi] = t
        return t

    def poly_term(self, P, memo):
        acc = tm.ZERO
        for m, c in P.iterterms():
            facs = sorted(((self.gen_term(gi, memo), e) for gi, e in enumerate(m) if e), key=lambda fe: fe[0].id)
            mono = None
            for g, e in facs:
                p = tm.pow_(g, e)
                mono = p if mono is None else tm.mul(mono, p)
            cq = tm.const(Fraction(int(c)))
            t = cq if mono is None else tm.mul(mono, cq)
            acc = tm.add(acc, t)
        return acc

    def to_term(self, e, memo=None):
        memo = {} if memo is None else memo
        n = self.poly_term(e.P, memo)
        if e.q != 1:
            n = tm.mul(n, tm.const(Fraction(1, e.q)))
        if not e.d:
            return n
        den = None
        for j, k in sorted(e.d.items()):
            key = ("den", j)
            if key not in memo:
                memo[key] = self.poly_term(self.dens[j], memo)
            p = tm.pow_(memo[key], k)
            den = p if den is None else tm.mul(den, p)
        return tm.div(n, den)


def _manifestly_positive(tw, D):
    """all coefficients > 0, every monomial a product of even powers of atoms and any powers of sqrt generators,
    and a constant term present  =>  D > 0 everywhere"""
    has_const = False
    for m, c in D.iterterms():
        if c <= 0:
            return False
        if not any(m):
            has_const = True
        for gi, e in enumerate(m):
            if e % 2 and not (tw.atom_of_gen[gi].op == "sqrt"):
                return False
    return has_const


def sign_term(tw, e, memo=None):
    """a term with the same sign (and the same zero set) as the element e: manifestly positive denominators are dropped,
    the others are kept to the power (exponent mod 2) -- multiplying by an even power of a non-zero quantity"""
    memo = {} if memo is None else memo
    n = tw.poly_term(e.P, memo)
    keep = None
    for j, k in sorted(e.d.items()):
        if _manifestly_positive(tw, tw.dens[j]):
            continue
        # n / D^k has the sign of n * D^(k mod 2) only where D != 0; keep an honest division instead
        key = ("den", j)
        if key not in memo:
            memo[key] = tw.poly_term(tw.dens[j], memo)
        p = tm.pow_(memo[key], k)
        keep = p if keep is None else tm.mul(keep, p)
    return n if keep is None else tm.div(n, keep)


def is_zero(term, budget_s=60.0, control=None, sign_oracle=None):
    """control: a term that must NOT normalise to zero (negative control sharing all sub-computations)"""
    t0 = time.time()
    try:
        with time_limit(budget_s):
            tw = Tower([term] + ([control] if control is not None else []), budget_s, sign_oracle=sign_oracle)
            e = tw.root_elems()[0]
            if control is not None and e.P == 0 and tw.root_elems()[1].P == 0:
                return "unsound", {"reason": "negative control normalised to zero", "time_s": time.time() - t0}
        return ("zero" if e.P == 0 else "nonzero"), {"atoms": len(tw.atom_terms), "radicals": len(tw.rad_order),
                                                     "denominators": len(tw.dens), "time_s": time.time() - t0,
                                                     "side_conditions": tw.side_conditions}
    except GaveUp as ex:
        return "gaveup", {"reason": str(ex), "time_s": time.time() - t0}


def simplify_terms(terms, budget_s=20.0):
    """canonical re-expression of real, ite-free terms (no trig rewriting: pure algebra).  Returns the input on failure."""
    try:
        with time_limit(budget_s):
            tw = Tower(list(terms), budget_s, rewrite_trig=False)
            memo = {}
            return [tw.to_term(e, memo) for e in tw.root_elems()]
    except GaveUp:
        return list(terms)


_SIMP_CACHE = {}


def simplify_formula(f, budget_s=15.0):
    """rewrite every real comparison a ~ b of a boolean formula as nf(a - b) ~ 0 (canonical tower form).
    Pure equivalence (ring identities + s^2 = N); comparisons that cannot be normalised are kept."""
    if f.id in _SIMP_CACHE:
        return _SIMP_CACHE[f.id]
    memo = {}
    for t in tm.postorder([f]):
        if t.sort != "B":
            continue
        if t.id in _SIMP_CACHE:
            memo[t.id] = _SIMP_CACHE[t.id]
            continue
        if t.op in ("<", "<=", "=="):
            a, b = t.args
            new = t
            d = tm.add(a, tm.neg(b))
            if not any(x.op in ("ite", "<", "<=", "==", "and", "or", "not") for x in tm.postorder([d])):
                try:
                    with time_limit(budget_s):
                        tw = Tower([d], budget_s, rewrite_trig=False)
                        e = tw.root_elems()[0]
                        nt = sign_term(tw, e)
                    new = {"<": tm.lt, "<=": tm.le, "==": tm.eq}[t.op](nt, tm.ZERO)
                except GaveUp:
                    new = t
            memo[t.id] = new
        elif t.op in ("and", "or"):
            memo[t.id] = (tm.and_ if t.op == "and" else tm.or_)(memo[t.args[0].id], memo[t.args[1].id])
        elif t.op == "not":
            memo[t.id] = tm.not_(memo[t.args[0].id])
        else:
            memo[t.id] = t
        _SIMP_CACHE[t.id] = memo[t.id]
    return memo[f.id]


def _flatten_product(t, out):
    if t.op == "*" and t.args[0].op != "c" and t.args[1].op != "c":
        _flatten_product(t.args[0], out)
        _flatten_product(t.args[1], out)
        return True
    out.append(t)
    return False


def monomial_abstraction(forms):
    """sound generalisation: every product of >= 2 distinct atoms (or degree >= 3) becomes a fresh variable;
    squares of a single atom stay.  Works best on tower normal forms, whose monomials are canonical nodes."""
    mapping = {}
    extra = []
    n = 0
    for t in tm.postorder(forms):
        if t.op != "*" or t.args[0].op == "c" or t.args[1].op == "c":
            continue
        facs = []
        _flatten_product(t, facs)
        if not all(f.op in ("v", "sqrt", "f", "pi") for f in facs):
            continue
        distinct = {f.id for f in facs}
        if len(distinct) < 2 and len(facs) < 3:
            continue
        v = tm.var("mono!%d" % n)
        n += 1
        mapping[t] = v
        cnt = {}
        for f in facs:
            cnt[f.id] = cnt.get(f.id, 0) + 1
        if all(c % 2 == 0 for c in cnt.values()):
            extra.append(tm.le(tm.ZERO, v))
    if not mapping:
        return None
    new = tm.subst(list(forms), mapping)
    return new, extra, n

"""Engine A (pyvc): verification conditions generated from the AST of repository functions, discharged by z3 over
mathematical integers (A-PY: Python ints are unbounded; `//`, `%` floor semantics; `range`/`min`/`max`/`len` builtins).

Supported here (a stated subset; anything else raises Unsupported and the obligation `supported_subset` fails):

1. `range_slice_loops(fnode)`: loops  `for i in range(a, b, c): yield X[... lo : hi]`  (the batching pattern) ->
   the loop-invariant VCs that make the yielded slices a partition of [0, n) into consecutive non-empty chunks of
   at most `c` elements.
2. `CountLoop`: abstract execution of a function over integer-valued state with sidecar callee abstractions,
   `while` loops carrying a sidecar invariant (VCs: init, preservation, exit => post).
"""
from __future__ import annotations

import ast

import z3


class Unsupported(Exception):
    pass


def expr_z3(node, env):
    """integer / boolean expression -> z3 (names resolved in env)"""
    if isinstance(node, ast.Constant):
        if isinstance(node.value, bool):
            return z3.BoolVal(node.value)
        if isinstance(node.value, int):
            return z3.IntVal(node.value)
        raise Unsupported("constant %r" % (node.value,))
    if isinstance(node, ast.Name):
        if node.id in env:
            return env[node.id]
        raise Unsupported("unknown name %s" % node.id)
    if isinstance(node, ast.BinOp):
        a, b = expr_z3(node.left, env), expr_z3(node.right, env)
        if isinstance(node.op, ast.Add):
            return a + b
        if isinstance(node.op, ast.Sub):
            return a - b
        if isinstance(node.op, ast.Mult):
            return a * b
        if isinstance(node.op, ast.FloorDiv):
            return a / b  # z3 Int division is floor for positive divisors (callers require divisor > 0)
        if isinstance(node.op, ast.Mod):
            return a % b
        raise Unsupported("operator %s" % type(node.op).__name__)
    if isinstance(node, ast.UnaryOp):
        v = expr_z3(node.operand, env)
        if isinstance(node.op, ast.USub):
            return -v
        if isinstance(node.op, ast.Not):
            return z3.Not(v)
        raise Unsupported("unary %s" % type(node.op).__name__)
    if isinstance(node, ast.Call) and isinstance(node.func, ast.Name) and node.func.id in ("min", "max") and len(node.args) == 2:
        a, b = expr_z3(node.args[0], env), expr_z3(node.args[1], env)
        return z3.If(a <= b, a, b) if node.func.id == "min" else z3.If(a >= b, a, b)
    if isinstance(node, ast.Compare) and len(node.ops) == 1:
        a, b = expr_z3(node.left, env), expr_z3(node.comparators[0], env)
        op = node.ops[0]
        return {ast.Lt: a < b, ast.LtE: a <= b, ast.Gt: a > b, ast.GtE: a >= b, ast.Eq: a == b, ast.NotEq: a != b}[type(op)]
    if isinstance(node, ast.BoolOp):
        vs = [expr_z3(v, env) for v in node.values]
        return z3.And(*vs) if isinstance(node.op, ast.And) else z3.Or(*vs)
    raise Unsupported("expression %s" % ast.dump(node)[:80])


def valid(hyps, goal, timeout_ms=20000):
    s = z3.Solver()
    s.set("timeout", timeout_ms)
    for h in hyps:
        s.add(h)
    s.add(z3.Not(goal))
    r = s.check()
    if r == z3.unsat:
        return "proved", None
    if r == z3.sat:
        m = s.model()
        return "refuted", {str(d): str(m[d]) for d in m.decls()}
    return "undecided", None


def range_slice_loops(fnode, size_name, batch_name):
    """find `for i in range(A, B, C): yield <subscript with a slice lo:hi>` loops; returns list of dict(range=(A,B,C), lo, hi, line)"""
    out = []
    for node in ast.walk(fnode):
        if isinstance(node, ast.For) and isinstance(node.iter, ast.Call) and isinstance(node.iter.func, ast.Name) and node.iter.func.id == "range":
            if not isinstance(node.target, ast.Name):
                raise Unsupported("loop target")
            ys = [n for n in ast.walk(node) if isinstance(n, ast.Yield)]
            if len(ys) != 1 or len(node.body) != 1:
                raise Unsupported("loop body is not a single yield")
            sub = ys[0].value
            if not isinstance(sub, ast.Subscript):
                raise Unsupported("yield of a non-subscript")
            sl = sub.slice
            if isinstance(sl, ast.Tuple):
                sls = [e for e in sl.elts if isinstance(e, ast.Slice)]
                if len(sls) != 1 or not all(isinstance(e, ast.Slice) or (isinstance(e, ast.Constant) and e.value is Ellipsis) for e in sl.elts):
                    raise Unsupported("subscript form")
                sl = sls[0]
            if not isinstance(sl, ast.Slice) or sl.step is not None or sl.lower is None or sl.upper is None:
                raise Unsupported("slice form")
            args = node.iter.args
            if len(args) != 3:
                raise Unsupported("range with %d arguments" % len(args))
            out.append(dict(var=node.target.id, range=args, lo=sl.lower, hi=sl.upper, line=node.lineno))
    return out


def slice_partition_vcs(loop, size_name, batch_name):
    """VCs (linear integer arithmetic, all n >= 0, b >= 1) for: the slices yielded by the loop are
    [0,h1), [h1,h2), ..., [h_{K-1}, n): consecutive, non-empty, each of at most b elements, covering exactly [0, n)."""
    n, b, i = z3.Int(size_name), z3.Int(batch_name), z3.Int(loop["var"])
    env = {size_name: n, batch_name: b, loop["var"]: i}
    start, stop, step = (expr_z3(a, env) for a in loop["range"])
    lo, hi = expr_z3(loop["lo"], env), expr_z3(loop["hi"], env)
    pre = [n >= 0, b >= 1]
    # i ranges over start, start+step, ... < stop  (step > 0).  Loop-head invariant: start <= i < stop and (i - start) % step == 0;
    # the arithmetic progression itself is the semantics of range (A-PY).
    inloop = [i >= start, i < stop]
    vcs = []
    vcs.append(("range_is_0_n_b", pre, z3.And(start == 0, stop == n, step == b), "the loop runs over range(0, n, b)"))
    vcs.append(("step_positive", pre, step >= 1, "range step >= 1 (progress)"))
    vcs.append(("first_slice_starts_at_0", pre + [i == start], lo == 0, "the first slice starts at 0"))
    vcs.append(("slice_starts_at_i", pre + inloop, lo == i, "slice of iteration i starts at i"))
    vcs.append(("contiguous", pre + inloop + [i + step < stop], hi == i + step, "if another iteration follows, this slice ends where the next starts"))
    vcs.append(("last_slice_ends_at_n", pre + inloop + [i + step >= stop], hi == n, "the last slice ends at n"))
    vcs.append(("non_empty_at_most_b", pre + inloop, z3.And(hi - lo >= 1, hi - lo <= b), "every slice has between 1 and b elements"))
    vcs.append(("within_bounds", pre + inloop, z3.And(lo >= 0, hi <= n), "slices stay inside [0, n]"))
    vcs.append(("no_iteration_iff_empty", pre, (start < stop) == (n > 0), "the loop yields nothing iff n == 0"))
    return vcs


# ---------------------------------------------------------------------------------------------------- count loops


class AbsVal:
    """abstract value: kind 'int' (z3 Int), 'bool' (z3 Bool), 'len' (object with an integer length / leading dimension),
    'opaque' (anything else)"""

    def __init__(self, kind, z=None):
        self.kind = kind
        self.z = z


class CountLoop:
    """abstract execution of a straight-line/if/while function body over integer and length-valued variables.

    callee abstractions: {source text of callee: fn(engine, call_node, args_absvals) -> AbsVal}, may add facts via engine.assume.
    invariants: {ordinal of while loop: fn(env) -> z3 Bool}, checked (init, preservation) and assumed after havoc.
    """

    def __init__(self, fnode, params, callees, invariants, attr_values=None):
        self.fnode = fnode
        self.callees = callees
        self.invariants = invariants
        self.facts = []
        self.vcs = []  # (name, hyps, goal, clause)
        self.fresh_n = 0
        self.env = dict(params)
        self.attr_values = attr_values or {}
        self.returned = []  # (path_facts, AbsVal)
        self.loop_ord = 0

    def fresh_int(self, tag="v"):
        self.fresh_n += 1
        return z3.Int("%s!%d" % (tag, self.fresh_n))

    def assume(self, f):
        self.facts.append(f)

    # ---- expressions
    def ev(self, node):
        if isinstance(node, ast.Constant):
            if isinstance(node.value, bool):
                return AbsVal("bool", z3.BoolVal(node.value))
            if isinstance(node.value, int):
                return AbsVal("int", z3.IntVal(node.value))
            return AbsVal("opaque")
        if isinstance(node, ast.Name):
            if node.id in self.env:
                return self.env[node.id]
            return AbsVal("opaque")
        if isinstance(node, ast.Attribute):
            t = ast.unparse(node)
            if t in self.attr_values:
                return self.attr_values[t]
            if node.attr == "shape":
                base = self.ev(node.value)
                if base.kind == "len":
                    return AbsVal("shape", base.z)
            return AbsVal("opaque")
        if isinstance(node, ast.Subscript):
            base = self.ev(node.value)
            if base.kind == "shape" and isinstance(node.slice, ast.Constant) and node.slice.value == 0:
                return AbsVal("int", base.z)
            if base.kind == "len" and isinstance(node.slice, ast.Constant):
                # element of a list whose members share the common length (lists of same-length tensors)
                return AbsVal("len", base.z)
            if base.kind == "len" and isinstance(node.slice, ast.Slice) and node.slice.lower is None and node.slice.step is None:
                up = self.ev(node.slice.upper)
                if up.kind == "int":
                    # x[:k] for k >= 0 has length min(len, k)
                    self.vcs.append(("slice_bound_nonneg#%d" % sum(1 for v in self.vcs if v[0].startswith("slice_bound")), list(self.facts), up.z >= 0, "slice upper bound is non-negative"))
                    return AbsVal("len", z3.If(base.z <= up.z, base.z, up.z))
            return AbsVal("opaque")
        if isinstance(node, ast.BinOp):
            a, b = self.ev(node.left), self.ev(node.right)
            if a.kind == "int" and b.kind == "int":
                env = {"a": a.z, "b": b.z}
                fake = ast.BinOp(left=ast.Name(id="a"), op=node.op, right=ast.Name(id="b"))
                try:
                    return AbsVal("int", expr_z3(fake, env))
                except Unsupported:
                    return AbsVal("opaque")
            return AbsVal("opaque")
        if isinstance(node, ast.Compare) and len(node.ops) == 1:
            a, b = self.ev(node.left), self.ev(node.comparators[0])
            if a.kind == "int" and b.kind == "int":
                op = node.ops[0]
                return AbsVal("bool", {ast.Lt: a.z < b.z, ast.LtE: a.z <= b.z, ast.Gt: a.z > b.z, ast.GtE: a.z >= b.z, ast.Eq: a.z == b.z,
                                       ast.NotEq: a.z != b.z}[type(op)])
            return AbsVal("bool", z3.Bool("cmp!%d" % id(node)))
        if isinstance(node, ast.BoolOp):
            vs = [self.ev(v) for v in node.values]
            zs = [v.z if v.kind == "bool" else z3.Bool("b!%d" % id(v)) for v in vs]
            return AbsVal("bool", z3.And(*zs) if isinstance(node.op, ast.And) else z3.Or(*zs))
        if isinstance(node, ast.UnaryOp) and isinstance(node.op, ast.Not):
            v = self.ev(node.operand)
            return AbsVal("bool", z3.Not(v.z) if v.kind == "bool" else z3.Bool("b!%d" % id(node)))
        if isinstance(node, ast.Call):
            text = ast.unparse(node.func)
            args = [self.ev(a) for a in node.args]
            if text in self.callees:
                return self.callees[text](self, node, args)
            if text == "int" and len(args) == 1:
                return args[0] if args[0].kind == "int" else AbsVal("int", self.fresh_int("int"))
            if text in ("min", "max") and len(args) == 2 and all(a.kind == "int" for a in args):
                a, b = args[0].z, args[1].z
                return AbsVal("int", z3.If(a <= b, a, b) if text == "min" else z3.If(a >= b, a, b))
            return AbsVal("opaque")
        if isinstance(node, ast.ListComp):
            return self.callees.get("<listcomp>", lambda e, n, a: AbsVal("opaque"))(self, node, [])
        if isinstance(node, ast.Tuple):
            return AbsVal("tuple", [self.ev(e) for e in node.elts])
        return AbsVal("opaque")

    # ---- statements (single path with z3 If-merging is avoided: paths are split)
    def run(self, stmts, cont):
        """execute stmts then call cont()"""
        if not stmts:
            return cont()
        st, rest = stmts[0], stmts[1:]
        if isinstance(st, ast.Expr):
            if isinstance(st.value, ast.Constant):
                return self.run(rest, cont)
            self.ev(st.value)
            return self.run(rest, cont)
        if isinstance(st, (ast.Assign, ast.AnnAssign)):
            v = self.ev(st.value)
            tgt = st.targets[0] if isinstance(st, ast.Assign) else st.target
            if isinstance(tgt, ast.Name):
                self.env[tgt.id] = v
            elif isinstance(tgt, ast.Tuple) and all(isinstance(e, ast.Name) for e in tgt.elts):
                # a, b = <tuple-valued expression>: element-wise when the abstract value is a tuple of the same length, else unknown
                parts = v.z if v.kind == "tuple" and len(v.z) == len(tgt.elts) else [AbsVal("opaque")] * len(tgt.elts)
                for e, pv in zip(tgt.elts, parts):
                    self.env[e.id] = pv
            return self.run(rest, cont)
        if isinstance(st, ast.AugAssign) and isinstance(st.target, ast.Name):
            cur = self.env.get(st.target.id, AbsVal("opaque"))
            v = self.ev(st.value)
            if cur.kind == "int" and v.kind == "int" and isinstance(st.op, (ast.Add, ast.Sub)):
                self.env[st.target.id] = AbsVal("int", cur.z + v.z if isinstance(st.op, ast.Add) else cur.z - v.z)
            else:
                self.env[st.target.id] = AbsVal("opaque")
            return self.run(rest, cont)
        if isinstance(st, ast.If):
            c = self.ev(st.test)
            cz = c.z if c.kind == "bool" else z3.Bool("if!%d" % st.lineno)
            saved_env, saved_facts = dict(self.env), list(self.facts)
            self.facts.append(cz)
            self.run(list(st.body) + rest, cont)
            self.env, self.facts = dict(saved_env), list(saved_facts)
            self.facts.append(z3.Not(cz))
            self.run(list(st.orelse) + rest, cont)
            self.env, self.facts = saved_env, saved_facts
            return
        if isinstance(st, ast.Return):
            v = self.ev(st.value) if st.value is not None else AbsVal("opaque")
            self.returned.append((list(self.facts), v, dict(self.env)))
            return
        if isinstance(st, ast.While):
            k = self.loop_ord
            self.loop_ord += 1
            inv = self.invariants[k]
            # init
            self.vcs.append(("while%d.invariant_init" % k, list(self.facts), inv(self.env), "loop invariant holds on entry"))
            # havoc the variables assigned in the loop
            assigned = {n.id for s in ast.walk(st) for n in ([s.target] if isinstance(s, ast.AugAssign) else (s.targets if isinstance(s, ast.Assign) else []))
                        if isinstance(n, ast.Name)}
            assigned |= {e.id for s in ast.walk(st) if isinstance(s, ast.Assign) for n in s.targets if isinstance(n, ast.Tuple) for e in n.elts if isinstance(e, ast.Name)}
            saved_facts = list(self.facts)
            for name in sorted(assigned):
                cur = self.env.get(name)
                if cur is not None and cur.kind in ("int", "len"):
                    self.env[name] = AbsVal(cur.kind, self.fresh_int(name))
                else:
                    self.env[name] = AbsVal("opaque")
            self.facts = saved_facts + [inv(self.env)]
            head_env, head_facts = dict(self.env), list(self.facts)
            c = self.ev(st.test)
            cz = c.z if c.kind == "bool" else z3.Bool("while!%d" % st.lineno)
            # preservation: run the body from an arbitrary state satisfying inv and the guard
            self.facts.append(cz)

            def after_body():
                self.vcs.append(("while%d.invariant_preserved" % k, list(self.facts), inv(self.env), "loop invariant is preserved by the body"))

            sub_loop = self.loop_ord
            self.run(list(st.body), after_body)
            self.loop_ord = max(self.loop_ord, sub_loop)
            # exit
            self.env, self.facts = head_env, head_facts + [z3.Not(cz)]
            return self.run(rest, cont)
        if isinstance(st, (ast.Pass, ast.Import, ast.ImportFrom)):
            return self.run(rest, cont)
        raise Unsupported("statement %s at line %d" % (type(st).__name__, st.lineno))

    def execute(self):
        body = [s for s in self.fnode.body]
        self.run(body, lambda: self.returned.append((list(self.facts), AbsVal("opaque"), dict(self.env))))
        return self

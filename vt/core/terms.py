"""Hash-consed term DAG used by the shadow-execution engine (Engine S).

A term is an immutable node ``T(op, args)``.  Nodes are interned in a table that
holds strong references (so ids are never reused -- see DESIGN 2.1 pitfall).

Sorts: 'R' real, 'B' bool.  Complex numbers are pairs (class C) of real terms.

ops
  c      (Fraction,)                     rational constant
  pi     ()                              the constant pi
  v      (name, sort)                    free variable / atom
  +  *   (a, b)                          binary
  /      (a, b)
  neg    (a,)
  sqrt   (a,)                            principal square root (atom with relation)
  ite    (cond, a, b)
  < <= == (a, b)                         real comparisons -> bool
  and or (a, b) ; not (a,)               bool
  f      (fname, a, ...)                 uninterpreted / axiomatised function
"""
from __future__ import annotations

import math
from fractions import Fraction

_TABLE: dict = {}
_COUNTER = [0]


class ForkNeeded(Exception):
    pass


class T:
    __slots__ = ("op", "args", "id", "sort")

    def __new__(cls, op, args, sort):
        key = (op, args)
        t = _TABLE.get(key)
        if t is not None:
            return t
        t = object.__new__(cls)
        t.op = op
        t.args = args
        t.sort = sort
        _COUNTER[0] += 1
        t.id = _COUNTER[0]
        _TABLE[key] = t
        return t

    # NB: == / != / hash are IDENTITY (terms are interned); symbolic equality is terms.eq().
    __hash__ = object.__hash__

    def __lt__(self, o):
        return lt(self, _l(o))

    def __le__(self, o):
        return le(self, _l(o))

    def __gt__(self, o):
        return lt(_l(o), self)

    def __ge__(self, o):
        return le(_l(o), self)

    def __add__(self, o):
        o = lift(o)
        if o is NotImplemented:
            return NotImplemented
        return add(self, o)

    def __radd__(self, o):
        o = lift(o)
        if o is NotImplemented:
            return NotImplemented
        return add(o, self)

    def __sub__(self, o):
        o = lift(o)
        if o is NotImplemented:
            return NotImplemented
        return add(self, neg(o))

    def __rsub__(self, o):
        o = lift(o)
        if o is NotImplemented:
            return NotImplemented
        return add(o, neg(self))

    def __mul__(self, o):
        o = lift(o)
        if o is NotImplemented:
            return NotImplemented
        return mul(self, o)

    def __rmul__(self, o):
        o = lift(o)
        if o is NotImplemented:
            return NotImplemented
        return mul(o, self)

    def __truediv__(self, o):
        o = lift(o)
        if o is NotImplemented:
            return NotImplemented
        return div(self, o)

    def __rtruediv__(self, o):
        o = lift(o)
        if o is NotImplemented:
            return NotImplemented
        return div(o, self)

    def __neg__(self):
        return neg(self)

    def __pos__(self):
        return self

    def __abs__(self):
        return abs_(self)

    def __pow__(self, o):
        return pow_(self, o)

    def __rpow__(self, o):
        return pow_(lift(o), self)

    def __and__(self, o):
        return and_(self, _l(o))

    def __rand__(self, o):
        return and_(_l(o), self)

    def __or__(self, o):
        return or_(self, _l(o))

    def __ror__(self, o):
        return or_(_l(o), self)

    def __invert__(self):
        return not_(self)

    def __bool__(self):
        if self.op == "c":
            return bool(self.args[0])
        if self.op == "true":
            return True
        if self.op == "false":
            return False
        from . import paths

        return paths.decide(self)

    def __float__(self):
        if self.op == "c":
            return float(self.args[0])
        if self.op == "pi":
            return math.pi
        raise TypeError("symbolic term has no float value: %s" % short(self))

    def __int__(self):
        if self.op == "c" and self.args[0].denominator == 1:
            return int(self.args[0])
        raise TypeError("symbolic term has no int value")

    def __index__(self):
        return self.__int__()

    def __repr__(self):
        return "T<%s>" % short(self, 120)

    # numpy asks for these on object arrays
    def sqrt(self):
        return sqrt_(self)

    def cos(self):
        return fn("cos", self)

    def sin(self):
        return fn("sin", self)

    def tan(self):
        return fn("tan", self)

    def exp(self):
        return fn("exp", self)

    def log(self):
        return fn("log", self)

    def arccos(self):
        return fn("acos", self)

    def arcsin(self):
        return fn("asin", self)

    def arctan(self):
        return fn("atan", self)

    def arctan2(self, o):
        return fn("atan2", self, _l(o))

    def conjugate(self):
        return self

    @property
    def real(self):
        return self

    @property
    def imag(self):
        return ZERO


def _l(o):
    r = lift(o)
    if r is NotImplemented:
        raise TypeError("cannot lift %r" % (o,))
    return r


_PI_MULT = {}
for _n in range(-8, 9):
    for _d in (1, 2, 3, 4, 6, 8):
        if _n != 0:
            _PI_MULT[math.pi * _n / _d] = Fraction(_n, _d)


_RECOGNISERS = []


class float_recogniser:
    """context manager: while active, float constants are offered to `fn(float) -> term | None` first.
    Used to read table floats such as 0.7071067811865476 as sqrt(1/2) (justified by a ground table contract)."""

    def __init__(self, fn):
        self.fn = fn

    def __enter__(self):
        _RECOGNISERS.append(self.fn)
        return self

    def __exit__(self, *a):
        _RECOGNISERS.remove(self.fn)
        return False


def sqrt_rational_recogniser(max_den=10**7, ulps=4):
    """float x -> +-sqrt(p/q) if |x| is within `ulps` ulp of sqrt(p/q) for a small rational p/q (else None)"""

    def rec(x):
        if x == 0:
            return None
        fx = Fraction(x)
        sq = fx * fx
        r = sq.limit_denominator(max_den)
        if r <= 0:
            return None
        approx = math.sqrt(r.numerator / r.denominator) if r.denominator else 0
        if abs(approx - abs(x)) <= ulps * abs(x) * 2.0**-52:
            # exact check on squares: |x^2 - r| <= 2*ulps*2^-52 * r
            if abs(sq - r) <= r * Fraction(2 * ulps + 1, 2**52):
                t = sqrt_const(r)
                return t if x > 0 else neg(t)
        return None

    return rec


def lift(o):
    """python number -> term"""
    if isinstance(o, T):
        return o
    if isinstance(o, bool):
        return TRUE if o else FALSE
    if isinstance(o, int):
        return const(Fraction(o))
    if isinstance(o, Fraction):
        return const(o)
    if isinstance(o, float):
        if o in _PI_MULT:
            return mul(const(_PI_MULT[o]), PI)
        if o != o or o in (math.inf, -math.inf):
            raise ValueError("non-finite float constant in symbolic execution: %r" % o)
        for rec in _RECOGNISERS:
            r = rec(o)
            if r is not None:
                return r
        return const(Fraction(repr(o)))
    try:
        import numpy as np

        if isinstance(o, np.bool_):
            return TRUE if bool(o) else FALSE
        if isinstance(o, np.integer):
            return const(Fraction(int(o)))
        if isinstance(o, np.floating):
            return lift(float(o))
        if isinstance(o, np.ndarray) and o.shape == ():
            return lift(o.item())
    except ImportError:
        pass
    try:
        import sympy

        if isinstance(o, sympy.Rational):
            return const(Fraction(int(o.p), int(o.q)))
        if isinstance(o, sympy.Float):
            return lift(float(o))
    except ImportError:
        pass
    return NotImplemented


def const(q):
    if not isinstance(q, Fraction):
        q = Fraction(q)
    return T("c", (q,), "R")


def var(name, sort="R"):
    return T("v", (name, sort), sort)


PI = T("pi", (), "R")
ZERO = const(0)
ONE = const(1)
TRUE = T("true", (), "B")
FALSE = T("false", (), "B")


def is_const(t):
    return t.op == "c"


def cval(t):
    return t.args[0]


def add(a, b):
    if a.op == "c" and b.op == "c":
        return const(a.args[0] + b.args[0])
    if a.op == "c" and a.args[0] == 0:
        return b
    if b.op == "c" and b.args[0] == 0:
        return a
    if b.op == "neg" and b.args[0] is a:
        return ZERO
    if a.op == "neg" and a.args[0] is b:
        return ZERO
    if a.op == "c":  # constants to the right
        a, b = b, a
    return T("+", (a, b), "R")


def neg(a):
    if a.op == "c":
        return const(-a.args[0])
    if a.op == "neg":
        return a.args[0]
    return T("neg", (a,), "R")


def mul(a, b):
    if a.op == "c" and b.op == "c":
        return const(a.args[0] * b.args[0])
    for x, y in ((a, b), (b, a)):
        if x.op == "c":
            if x.args[0] == 0:
                return ZERO
            if x.args[0] == 1:
                return y
            if x.args[0] == -1:
                return neg(y)
    if a.op == "c":
        a, b = b, a
    return T("*", (a, b), "R")


def div(a, b):
    if b.op == "c":
        if b.args[0] == 0:
            # undefined value; stays as a node so that definedness (guard-aware) decides whether it is used
            return T("/", (a, b), "R")
        return mul(a, const(1 / b.args[0]))
    if a.op == "c" and a.args[0] == 0:
        return T("/", (a, b), "R")  # keep: definedness of b still matters
    return T("/", (a, b), "R")


def _prime_factors(n):
    out = {}
    d = 2
    while d * d <= n:
        while n % d == 0:
            out[d] = out.get(d, 0) + 1
            n //= d
        d += 1
    if n > 1:
        out[n] = out.get(n, 0) + 1
    return out


def sqrt_const(q):
    """sqrt of a non-negative rational as  rational * prod sqrt(prime)  (canonical: the sqrt(p) are independent over Q)"""
    n, d = q.numerator, q.denominator
    # sqrt(n/d) = sqrt(n*d)/d
    m = n * d
    if m == 0:
        return ZERO
    if m > 10**24:
        return T("sqrt", (const(q),), "R")
    outside = 1
    t = None
    for p, e in sorted(_prime_factors(m).items()):
        outside *= p ** (e // 2)
        if e % 2:
            sp = T("sqrt", (const(Fraction(p)),), "R")
            t = sp if t is None else mul(t, sp)
    c = const(Fraction(outside, d))
    return c if t is None else mul(t, c)


def sqrt_(a):
    a = _l(a)
    if a.op == "c":
        q = a.args[0]
        if q >= 0:
            return sqrt_const(q)
    # sqrt(x*x) is NOT simplified (|x|)
    return T("sqrt", (a,), "R")


def pow_(a, n):
    if isinstance(n, T) and n.op == "c":
        n = n.args[0]
    if isinstance(n, float) and n == int(n):
        n = int(n)
    if isinstance(n, float):
        n = Fraction(repr(n))
    if isinstance(n, Fraction) and n.denominator == 1:
        n = int(n)
    if isinstance(n, int):
        if n == 0:
            return ONE
        if n < 0:
            return div(ONE, pow_(a, -n))
        r = None
        base = a
        k = n
        while k:
            if k & 1:
                r = base if r is None else mul(r, base)
            k >>= 1
            if k:
                base = mul(base, base)
        return r
    if isinstance(n, Fraction) and n.denominator == 2:
        # x ** (k/2) = sqrt(x) ** k
        return pow_(sqrt_(a), n.numerator)
    n = _l(n)
    return fn("pow", _l(a), n)


def abs_(a):
    if a.op == "c":
        return const(abs(a.args[0]))
    if a.op == "sqrt":
        return a
    return ite(le(ZERO, a), a, neg(a))


def ite(c, a, b):
    if isinstance(a, C) or isinstance(b, C):
        a, b = cx(a), cx(b)
        return C(ite(c, a.re, b.re), ite(c, a.im, b.im))
    a, b = _l(a), _l(b)
    if c.op == "true":
        return a
    if c.op == "false":
        return b
    if a is b:
        return a
    return T("ite", (c, a, b), a.sort)


def lt(a, b):
    if a.op == "c" and b.op == "c":
        return TRUE if a.args[0] < b.args[0] else FALSE
    return T("<", (a, b), "B")


def le(a, b):
    if a.op == "c" and b.op == "c":
        return TRUE if a.args[0] <= b.args[0] else FALSE
    if a is b:
        return TRUE
    return T("<=", (a, b), "B")


def eq(a, b):
    if a is b:
        return TRUE
    if a.op == "c" and b.op == "c":
        return TRUE if a.args[0] == b.args[0] else FALSE
    if a.sort == "B":
        return or_(and_(a, b), and_(not_(a), not_(b)))
    if a.id > b.id:
        a, b = b, a
    return T("==", (a, b), "B")


def and_(a, b):
    if a.op == "true":
        return b
    if b.op == "true":
        return a
    if a.op == "false" or b.op == "false":
        return FALSE
    if a is b:
        return a
    return T("and", (a, b), "B")


def or_(a, b):
    if a.op == "false":
        return b
    if b.op == "false":
        return a
    if a.op == "true" or b.op == "true":
        return TRUE
    if a is b:
        return a
    return T("or", (a, b), "B")


def not_(a):
    if a.op == "true":
        return FALSE
    if a.op == "false":
        return TRUE
    if a.op == "not":
        return a.args[0]
    return T("not", (a,), "B")


def implies(a, b):
    return or_(not_(a), b)


def conj(xs):
    r = TRUE
    for x in xs:
        r = and_(r, x)
    return r


def fn(name, *args, sort="R"):
    args = tuple(_l(a) for a in args)
    # constant folding for a few exact cases
    if name in ("cos", "sin") and args[0].op == "c" and args[0].args[0] == 0:
        return ONE if name == "cos" else ZERO
    if name == "exp" and args[0].op == "c" and args[0].args[0] == 0:
        return ONE
    if name == "log" and args[0].op == "c" and args[0].args[0] == 1:
        return ZERO
    if name == "atan2" and args[0].op == "c" and args[1].op == "c":
        y, x = args[0].args[0], args[1].args[0]
        if y == 0 and x >= 0:
            return ZERO
        if y == 0 and x < 0:
            return PI
    return T("f", (name,) + args, sort)


# ---------------------------------------------------------------- complex pairs


class C:
    """complex number as a pair of real terms"""

    __slots__ = ("re", "im")

    def __init__(self, re, im=ZERO):
        self.re = _l(re)
        self.im = _l(im)

    def __add__(self, o):
        o = cx(o)
        if o is NotImplemented:
            return NotImplemented
        return C(add(self.re, o.re), add(self.im, o.im))

    __radd__ = __add__

    def __sub__(self, o):
        o = cx(o)
        if o is NotImplemented:
            return NotImplemented
        return C(add(self.re, neg(o.re)), add(self.im, neg(o.im)))

    def __rsub__(self, o):
        o = cx(o)
        if o is NotImplemented:
            return NotImplemented
        return o.__sub__(self)

    def __mul__(self, o):
        o = cx(o)
        if o is NotImplemented:
            return NotImplemented
        return C(
            add(mul(self.re, o.re), neg(mul(self.im, o.im))),
            add(mul(self.re, o.im), mul(self.im, o.re)),
        )

    __rmul__ = __mul__

    def __truediv__(self, o):
        o = cx(o)
        if o is NotImplemented:
            return NotImplemented
        if o.im is ZERO:
            return C(div(self.re, o.re), div(self.im, o.re))
        d = add(mul(o.re, o.re), mul(o.im, o.im))
        n = self * C(o.re, neg(o.im))
        return C(div(n.re, d), div(n.im, d))

    def __rtruediv__(self, o):
        o = cx(o)
        if o is NotImplemented:
            return NotImplemented
        return o.__truediv__(self)

    def __neg__(self):
        return C(neg(self.re), neg(self.im))

    def __pos__(self):
        return self

    def __abs__(self):
        return sqrt_(add(mul(self.re, self.re), mul(self.im, self.im)))

    def __pow__(self, n):
        if isinstance(n, T) and n.op == "c":
            n = n.args[0]
        if isinstance(n, (float, Fraction)) and n == int(n):
            n = int(n)
        if not isinstance(n, int):
            raise TypeError("complex power with non-integer exponent")
        if n == 0:
            return C(ONE, ZERO)
        if n < 0:
            return C(ONE, ZERO) / (self ** (-n))
        r = self
        for _ in range(n - 1):
            r = r * self
        return r

    def conjugate(self):
        return C(self.re, neg(self.im))

    @property
    def real(self):
        return self.re

    @property
    def imag(self):
        return self.im

    def sym_eq(self, o):
        o = cx(o)
        return and_(eq(self.re, o.re), eq(self.im, o.im))

    def __repr__(self):
        return "C<%s , %s>" % (short(self.re, 60), short(self.im, 60))


def cx(o):
    if isinstance(o, C):
        return o
    if isinstance(o, complex):
        return C(lift(o.real), lift(o.imag))
    try:
        import numpy as np

        if isinstance(o, np.complexfloating):
            return C(lift(float(o.real)), lift(float(o.imag)))
    except ImportError:
        pass
    r = lift(o)
    if r is NotImplemented:
        return NotImplemented
    return C(r, ZERO)


# ---------------------------------------------------------------- traversal


def postorder(roots):
    """iterative post-order over the DAG reachable from roots (list of T)"""
    seen = set()
    out = []
    stack = [(r, False) for r in roots]
    while stack:
        t, done = stack.pop()
        if done:
            out.append(t)
            continue
        if t.id in seen:
            continue
        seen.add(t.id)
        stack.append((t, True))
        for a in t.args:
            if isinstance(a, T) and a.id not in seen:
                stack.append((a, False))
    return out


def atoms(roots):
    """free variables, sqrt atoms and uninterpreted applications, in creation order"""
    return [t for t in postorder(roots) if t.op in ("v", "sqrt", "f", "pi")]


def size(roots):
    return len(postorder(roots))


def short(t, limit=200):
    s = _fmt(t, 6)
    return s if len(s) <= limit else s[: limit - 3] + "..."


def _fmt(t, depth):
    if t.op == "c":
        return str(t.args[0])
    if t.op == "v":
        return t.args[0]
    if t.op in ("pi", "true", "false"):
        return t.op
    if depth == 0:
        return "#%d" % t.id
    if t.op == "f":
        return "%s(%s)" % (t.args[0], ", ".join(_fmt(a, depth - 1) for a in t.args[1:]))
    if t.op in ("+", "*", "/", "<", "<=", "==", "and", "or"):
        return "(%s %s %s)" % (_fmt(t.args[0], depth - 1), t.op, _fmt(t.args[1], depth - 1))
    return "%s(%s)" % (t.op, ", ".join(_fmt(a, depth - 1) for a in t.args))


# ---------------------------------------------------------------- substitution / evaluation


def subst(roots, mapping):
    """replace nodes (by identity) according to mapping {T: T}; returns list"""
    memo = {k.id: v for k, v in mapping.items()}
    for t in postorder(roots):
        if t.id in memo:
            continue
        if not t.args or t.op in ("c", "v", "pi", "true", "false"):
            memo[t.id] = t
            continue
        na = tuple(memo[a.id] if isinstance(a, T) else a for a in t.args)
        if all(x is y for x, y in zip(na, t.args)):
            memo[t.id] = t
        else:
            memo[t.id] = rebuild(t.op, na)
    return [memo[r.id] for r in roots]


def rebuild(op, a):
    if op == "+":
        return add(*a)
    if op == "*":
        return mul(*a)
    if op == "/":
        return div(*a)
    if op == "neg":
        return neg(*a)
    if op == "sqrt":
        return sqrt_(*a)
    if op == "ite":
        return ite(*a)
    if op == "<":
        return lt(*a)
    if op == "<=":
        return le(*a)
    if op == "==":
        return eq(*a)
    if op == "and":
        return and_(*a)
    if op == "or":
        return or_(*a)
    if op == "not":
        return not_(*a)
    if op == "f":
        return fn(a[0], *a[1:])
    raise KeyError(op)


_FLOAT_FUN = {
    "cos": math.cos,
    "sin": math.sin,
    "tan": math.tan,
    "atan2": math.atan2,
    "atan": math.atan,
    "acos": lambda x: math.acos(max(-1.0, min(1.0, x))),
    "asin": lambda x: math.asin(max(-1.0, min(1.0, x))),
    "exp": math.exp,
    "log": math.log,
    "tanh": math.tanh,
    "cosh": math.cosh,
    "sinh": math.sinh,
    "acosh": math.acosh,
    "pow": lambda x, y: x**y,
    "floor": math.floor,
    "mod": lambda x, y: x - y * math.floor(x / y),
}


def uf_interpretation(name):
    """a fixed smooth positive interpretation of the uninterpreted function `name` (deterministic in the name).  A claim about terms
    with uninterpreted functions is a claim for EVERY interpretation, so a failure under this one is a genuine refutation."""
    import zlib

    h = zlib.crc32(name.encode())
    ks = [0.37 + ((h >> (3 * i)) & 7) * 0.211 for i in range(8)]
    c0 = (h % 1000) / 1000.0

    def f(*args):
        s = c0
        for i, x in enumerate(args):
            s += ks[i % 8] * (i + 1) * x
        return 1.5 + math.sin(s)

    return f


def _is_declared_uf(name):
    """uninterpreted functions declared with partial derivatives (and those partials): independent symbols for the provers, so
    independent interpretations are legitimate"""
    if name in UF_PARTIALS:
        return True
    return any(name in v for v in UF_PARTIALS.values())


def eval_float(roots, env, funs=None, interpret_uf=False):
    """evaluate terms at a float point; env: {var name: float}.  Returns list.
    sqrt of a (slightly) negative number gives nan.  interpret_uf: functions named uf_* get uf_interpretation(name)."""
    memo = {}
    ff = dict(_FLOAT_FUN)
    if funs:
        ff.update(funs)
    for t in postorder(roots):
        op = t.op
        if op == "c":
            v = float(t.args[0])
        elif op == "pi":
            v = math.pi
        elif op == "v":
            v = env[t.args[0]]
        elif op == "true":
            v = True
        elif op == "false":
            v = False
        else:
            a = [memo[x.id] if isinstance(x, T) else x for x in t.args]
            try:
                if op == "+":
                    v = a[0] + a[1]
                elif op == "*":
                    v = a[0] * a[1]
                elif op == "/":
                    v = a[0] / a[1] if a[1] != 0 else math.nan
                elif op == "neg":
                    v = -a[0]
                elif op == "sqrt":
                    v = math.sqrt(a[0]) if a[0] >= 0 else math.nan
                elif op == "ite":
                    v = a[1] if a[0] else a[2]
                elif op == "<":
                    v = a[0] < a[1]
                elif op == "<=":
                    v = a[0] <= a[1]
                elif op == "==":
                    v = a[0] == a[1]
                elif op == "and":
                    v = a[0] and a[1]
                elif op == "or":
                    v = a[0] or a[1]
                elif op == "not":
                    v = not a[0]
                elif op == "f":
                    fname = a[0]
                    if fname not in ff and interpret_uf and (fname.startswith("uf_") or _is_declared_uf(fname)):
                        ff[fname] = uf_interpretation(fname)
                    v = ff[fname](*a[1:])
                else:
                    raise KeyError(op)
            except (ValueError, OverflowError, ZeroDivisionError):
                v = math.nan
        memo[t.id] = v
    return [memo[r.id] for r in roots]


def definedness(roots):
    """formula: every sqrt has a non-negative argument and every division a non-zero
    divisor *where it is used* (guards of ite are respected).  acos/asin/log/acosh domains too."""
    memo = {}
    for t in postorder(roots):
        op = t.op
        if not t.args or op in ("c", "v", "pi", "true", "false"):
            d = TRUE
        elif op == "ite":
            c, a, b = t.args
            d = and_(memo[c.id], and_(implies(c, memo[a.id]), implies(not_(c), memo[b.id])))
        elif op == "and":
            a, b = t.args
            d = and_(memo[a.id], implies(a, memo[b.id]))
        elif op == "or":
            a, b = t.args
            d = and_(memo[a.id], implies(not_(a), memo[b.id]))
        else:
            d = conj(memo[a.id] for a in t.args if isinstance(a, T))
            if op == "/":
                d = and_(d, not_(eq(t.args[1], ZERO)))
            elif op == "sqrt":
                d = and_(d, le(ZERO, t.args[0]))
            elif op == "f":
                name = t.args[0]
                if name in ("acos", "asin"):
                    d = and_(d, and_(le(const(-1), t.args[1]), le(t.args[1], ONE)))
                elif name == "log":
                    d = and_(d, lt(ZERO, t.args[1]))
                elif name == "acosh":
                    d = and_(d, le(ONE, t.args[1]))
        memo[t.id] = d
    return conj(memo[r.id] for r in roots)


# ---------------------------------------------------------------- symbolic differentiation (jets, DESIGN 2.3)

UF_PARTIALS = {}  # uninterpreted function name -> list of partial-derivative function names (one per argument)


def declare_partials(name, partial_names):
    UF_PARTIALS[name] = list(partial_names)


def diff(roots, dtable):
    """total derivative of terms w.r.t. one direction.  dtable: {atom term: derivative term}; atoms not listed are constant.
    Uninterpreted functions listed in UF_PARTIALS follow the chain rule through their declared partials."""
    memo = {}
    dt = {k.id: v for k, v in dtable.items()}
    for t in postorder(roots):
        op = t.op
        if t.id in dt:
            d = dt[t.id]
        elif op in ("c", "pi", "v", "true", "false"):
            d = ZERO
        elif op == "+":
            d = add(memo[t.args[0].id], memo[t.args[1].id])
        elif op == "neg":
            d = neg(memo[t.args[0].id])
        elif op == "*":
            a, b = t.args
            d = add(mul(memo[a.id], b), mul(a, memo[b.id]))
        elif op == "/":
            a, b = t.args
            d = div(add(mul(memo[a.id], b), neg(mul(a, memo[b.id]))), mul(b, b))
        elif op == "sqrt":
            a = t.args[0]
            d = div(memo[a.id], mul(const(2), t))
        elif op == "ite":
            c, a, b = t.args
            d = ite(c, memo[a.id], memo[b.id])
        elif op == "f":
            name = t.args[0]
            args = t.args[1:]
            if name in UF_PARTIALS:
                d = ZERO
                for i, a in enumerate(args):
                    da = memo[a.id]
                    if da is ZERO:
                        continue
                    d = add(d, mul(fn(UF_PARTIALS[name][i], *args), da))
            elif name == "log":
                d = div(memo[args[0].id], args[0])
            elif name == "exp":
                d = mul(t, memo[args[0].id])
            elif name == "sin":
                d = mul(fn("cos", args[0]), memo[args[0].id])
            elif name == "cos":
                d = neg(mul(fn("sin", args[0]), memo[args[0].id]))
            elif name == "atan":
                d = div(memo[args[0].id], add(ONE, mul(args[0], args[0])))
            elif name == "tan":
                d = mul(add(ONE, mul(t, t)), memo[args[0].id])
            elif name == "pow":
                x, y = args
                # d x^y = y x^(y-1) dx + ln(x) x^y dy
                d = add(mul(mul(y, fn("pow", x, add(y, const(-1)))), memo[x.id]), mul(mul(fn("log", x), t), memo[y.id]))
            elif all(memo[a.id] is ZERO for a in args):
                d = ZERO
            else:
                raise NotImplementedError("derivative of %s" % name)
        elif t.sort == "B":
            d = ZERO
        else:
            raise NotImplementedError("derivative of op %s" % op)
        memo[t.id] = d
    return [memo[r.id] for r in roots]


class Inexact(Exception):
    pass


def eval_exact(roots, env):
    """exact evaluation with Fractions (env: {name: Fraction}); None = undefined (division by zero, sqrt of a negative),
    propagated with the three-valued and/or; raises Inexact for irrational sqrt / uninterpreted functions"""
    memo = {}
    for t in postorder(roots):
        op = t.op
        if op == "c":
            v = t.args[0]
        elif op == "v":
            v = env[t.args[0]]
        elif op == "true":
            v = True
        elif op == "false":
            v = False
        elif op == "pi":
            raise Inexact("pi")
        else:
            a = [memo[x.id] if isinstance(x, T) else x for x in t.args]
            if op == "and":
                v = False if (a[0] is False or a[1] is False) else (None if (a[0] is None or a[1] is None) else True)
            elif op == "or":
                v = True if (a[0] is True or a[1] is True) else (None if (a[0] is None or a[1] is None) else False)
            elif op == "ite":
                v = None if a[0] is None else (a[1] if a[0] else a[2])
            elif any(x is None for x in a):
                v = None
            elif op == "+":
                v = a[0] + a[1]
            elif op == "*":
                v = a[0] * a[1]
            elif op == "/":
                v = None if a[1] == 0 else a[0] / a[1]
            elif op == "neg":
                v = -a[0]
            elif op == "sqrt":
                q = a[0]
                if q < 0:
                    v = None
                else:
                    rn, rd = math.isqrt(q.numerator), math.isqrt(q.denominator)
                    if rn * rn != q.numerator or rd * rd != q.denominator:
                        raise Inexact("sqrt")
                    v = Fraction(rn, rd)
            elif op == "<":
                v = a[0] < a[1]
            elif op == "<=":
                v = a[0] <= a[1]
            elif op == "==":
                v = a[0] == a[1]
            elif op == "not":
                v = not a[0]
            else:
                raise Inexact(op)
        memo[t.id] = v
    return [memo[r.id] for r in roots]

"""Engine A (frame analysis): verification conditions for "temporary override" functions (C17).

For a function of the repository (read from the current source with `ast` on every run) and a *frame specification*
(which abstract locations it may modify, which callees modify / restore / snapshot them), generate one obligation per
exit of the function -- the normal exits AND every exceptional edge (any call may raise; an exception thrown into a
generator-based context manager arrives at its `yield`) -- saying that every tracked location holds its entry value.

Abstract domain per location: ORIG (provably the entry value) or MOD (anything).  Locals may hold SNAP(loc): a
reference/copy of the entry value of loc.  MOD is conservative, so a discharged obligation is sound for the real
function under the stated callee contracts (listed in the spec and reported as assumptions unless they have their
own obligations).  Loops are iterated to the fixed point of the finite domain (an inferred invariant).

Python subset: assignments, expression statements, if/for/while, with, try/finally, try/except (handler bodies are
analysed, exceptions are assumed to possibly escape unless the handler is bare `except:`/`except Exception` without
re-raise), return, yield (statement or in `with ... : yield`), assert, pass, nested defs are skipped.
Anything else -> the function is rejected (obligation `supported_subset` fails), never silently skipped.
"""
from __future__ import annotations

import ast
import os

ORIG, MOD = "ORIG", "MOD"

NO_RAISE_CALLS = {"list", "len", "range", "zip", "isinstance", "enumerate", "set", "dict", "tuple", "id", "hasattr", "str", "print",
                  "combinations", "sorted", "float", "int", "bool", "type"}


class Spec:
    def __init__(self, func, locs, snapshot_exprs=(), snapshot_calls=(), restore_assign=(), restore_calls=(), mutate_calls=(),
                 cm_calls=(), pure_calls=(), is_contextmanager=False, note="", restore_stmts=(), mutate_assign=()):
        """
        func            "module:qualname"
        locs            names of abstract locations, e.g. ["chains_idx", "params"]
        snapshot_exprs  [(source_text_of_expression, loc)]   evaluating it yields (a reference to / copy of) the current value of loc
        snapshot_calls  [(callee_text, loc)]                 `x = callee(...)` snapshots loc (callee contract)
        restore_assign  [(target_text, loc)]                 `target = x` with x a snapshot of loc restores loc; with anything else modifies it
        restore_calls   [(callee_text, loc)]                 `callee(x)` with x (first argument) a snapshot of loc restores it; with anything else modifies it
        mutate_calls    [(callee_text, [locs])]              callee may modify the locations (also on its exceptional exit)
        cm_calls        [(callee_text, [locs])]              `with callee(...):` modifies locs on entry and restores them on every exit (callee's own contract)
        pure_calls      [callee_text]                        calls that modify nothing tracked (they may still raise)
        """
        self.func = func
        self.locs = list(locs)
        self.snapshot_exprs = list(snapshot_exprs)
        self.snapshot_calls = list(snapshot_calls)
        self.restore_assign = list(restore_assign)
        self.restore_calls = list(restore_calls)
        self.mutate_calls = list(mutate_calls)
        self.cm_calls = list(cm_calls)
        self.pure_calls = list(pure_calls)
        self.is_contextmanager = is_contextmanager
        self.note = note
        self.restore_stmts = list(restore_stmts)  # [(statement source text, loc, snapshot variable)]
        self.mutate_assign = list(mutate_assign)  # [(target text, loc)] assignment that modifies loc whatever the value


class Unsupported(Exception):
    pass


def _src(node):
    return ast.unparse(node)


def load_function(repo, func):
    modname, qual = func.split(":")
    path = os.path.join(repo, "tf_pwa", *modname.split(".")) + ".py"
    src = open(path).read()
    tree = ast.parse(src)
    node = tree
    for part in qual.split("."):
        found = None
        for ch in ast.iter_child_nodes(node):
            if isinstance(ch, (ast.FunctionDef, ast.ClassDef)) and ch.name == part:
                found = ch
                break
        if found is None:
            raise KeyError("%s not found in %s" % (qual, path))
        node = found
    return node, path


class State:
    __slots__ = ("loc", "env")

    def __init__(self, loc, env):
        self.loc = dict(loc)  # location -> ORIG/MOD
        self.env = dict(env)  # local name -> loc it snapshots

    def copy(self):
        return State(self.loc, self.env)

    def key(self):
        return (tuple(sorted(self.loc.items())), tuple(sorted(self.env.items())))

    def join(self, other):
        s = State(self.loc, {})
        for k in s.loc:
            if other.loc[k] != s.loc[k]:
                s.loc[k] = MOD
        for k, v in self.env.items():
            if other.env.get(k) == v:
                s.env[k] = v
        return s


class Analyzer:
    """forward abstract interpretation with explicit exceptional edges"""

    def __init__(self, spec, fnode):
        self.spec = spec
        self.fnode = fnode
        self.exits = []  # (kind, label, State)
        self.call_count = {}
        self.is_cm = spec.is_contextmanager or any(
            (isinstance(d, ast.Attribute) and d.attr == "contextmanager") or (isinstance(d, ast.Name) and d.id == "contextmanager")
            for d in fnode.decorator_list)

    # ---- helpers
    def _callee_text(self, call):
        return _src(call.func)

    def _match(self, table, text):
        for entry in table:
            if entry[0] == text:
                return entry
        return None

    def _label(self, call):
        t = self._callee_text(call)
        return t

    def _calls_in(self, node):
        """calls in evaluation order (approximately: inner first)"""
        out = []
        for n in ast.walk(node):
            if isinstance(n, ast.Call):
                out.append(n)
        # inner calls are evaluated before outer ones: sort by depth descending is not needed for the abstraction
        return out[::-1]

    def _raise_edge(self, state, label, handlers):
        """an exception leaves the current statement in `state`: route it through enclosing try blocks"""
        handlers(state.copy(), label)

    # ---- effects of one call (returns state after normal return; registers the exceptional edge)
    def _apply_call(self, call, state, on_raise, assign_target=None):
        text = self._callee_text(call)
        name = text.split(".")[-1]
        sp = self.spec
        m = self._match(sp.restore_calls, text)
        if m:
            loc = m[1]
            restores = any(isinstance(arg, ast.Name) and state.env.get(arg.id) == loc for arg in call.args)
            if not restores:
                # a modifying call: it may raise before or after having written -> MOD on the exceptional edge
                exc = state.copy()
                exc.loc[loc] = MOD
                on_raise(exc, "exception@" + text)
            # assumption (reported): re-installing a previously held value does not raise
            state.loc[loc] = ORIG if restores else MOD
            return state
        m = self._match(sp.mutate_calls, text)
        if m:
            exc = state.copy()
            for loc in m[1]:
                exc.loc[loc] = MOD
                state.loc[loc] = MOD
            on_raise(exc, "exception@" + text)
            return state
        m = self._match(sp.snapshot_calls, text) or self._match(sp.snapshot_calls, _src(call))
        if m:
            on_raise(state.copy(), "exception@" + text)
            if assign_target is not None and state.loc[m[1]] == ORIG:
                state.env[assign_target] = m[1]
            return state
        if text in NO_RAISE_CALLS or name in NO_RAISE_CALLS:
            return state
        # unknown or pure call: modifies nothing tracked (frame assumption for pure_calls; unknown calls are treated as pure
        # but LISTED in the report), may raise
        if text not in sp.pure_calls:
            self.unknown_calls.add(text)
        on_raise(state.copy(), "exception@" + text)
        return state

    def _eval_expr(self, node, state, on_raise, assign_target=None):
        """process all calls inside an expression"""
        if node is None:
            return state
        calls = self._calls_in(node)
        for c in calls:
            tgt = assign_target if c is node else None
            state = self._apply_call(c, state, on_raise, tgt)
        return state

    # ---- statements: returns list of fall-through states
    def run_block(self, stmts, states, on_raise, on_return, in_loop=None):
        for st in stmts:
            nxt = []
            for s in states:
                nxt.extend(self.run_stmt(st, s, on_raise, on_return, in_loop))
            states = self._dedup(nxt)
            if not states:
                break
        return states

    def _dedup(self, states):
        seen = {}
        for s in states:
            seen.setdefault(s.key(), s)
        return list(seen.values())

    def run_stmt(self, st, state, on_raise, on_return, in_loop):
        sp = self.spec
        state = state.copy()
        for text, loc, var in sp.restore_stmts:
            if _src(st) == text:
                if state.env.get(var) == loc:
                    state.loc[loc] = ORIG
                else:
                    state.loc[loc] = MOD
                return [state]
        if isinstance(st, (ast.Pass, ast.Import, ast.ImportFrom, ast.Global, ast.Nonlocal, ast.FunctionDef, ast.ClassDef)):
            return [state]
        if isinstance(st, ast.Expr):
            v = st.value
            if isinstance(v, (ast.Yield, ast.YieldFrom)):
                return self._yield(v, state, on_raise)
            if isinstance(v, ast.Constant):
                return [state]
            return [self._eval_expr(v, state, on_raise)]
        if isinstance(st, (ast.Assign, ast.AnnAssign, ast.AugAssign)):
            value = st.value
            targets = st.targets if isinstance(st, ast.Assign) else [st.target]
            if isinstance(value, (ast.Yield, ast.YieldFrom)):
                outs = self._yield(value, state, on_raise)
                return outs
            tname = targets[0].id if len(targets) == 1 and isinstance(targets[0], ast.Name) else None
            # snapshot by expression
            snap_loc = None
            if value is not None:
                vt = _src(value)
                m = self._match(sp.snapshot_exprs, vt)
                if m and state.loc[m[1]] == ORIG:
                    snap_loc = m[1]
                elif isinstance(value, ast.Name) and value.id in state.env:
                    snap_loc = state.env[value.id]
            state = self._eval_expr(value, state, on_raise, assign_target=tname)
            for t in targets:
                tt = _src(t)
                m = self._match(sp.restore_assign, tt)
                if m:
                    loc = m[1]
                    if isinstance(value, ast.Name) and state.env.get(value.id) == loc:
                        state.loc[loc] = ORIG
                    else:
                        state.loc[loc] = MOD
                elif self._match(sp.mutate_assign, tt):
                    state.loc[self._match(sp.mutate_assign, tt)[1]] = MOD
                elif isinstance(t, ast.Name):
                    if snap_loc is not None:
                        state.env[t.id] = snap_loc
                    elif not (tname and tname in state.env and value is not None and isinstance(value, ast.Call)
                              and (self._match(sp.snapshot_calls, self._callee_text(value)) or self._match(sp.snapshot_calls, _src(value)))):
                        state.env.pop(t.id, None)
                elif isinstance(t, (ast.Tuple, ast.List)):
                    for e in t.elts:
                        if isinstance(e, ast.Name):
                            state.env.pop(e.id, None)
                # attribute / subscript targets that are not tracked: no effect on the abstraction
            return [state]
        if isinstance(st, ast.Assert):
            return [self._eval_expr(st.test, state, on_raise)]
        if isinstance(st, ast.Return):
            state = self._eval_expr(st.value, state, on_raise)
            on_return(state)
            return []
        if isinstance(st, ast.Raise):
            state = self._eval_expr(st.exc, state, on_raise)
            on_raise(state, "raise")
            return []
        if isinstance(st, ast.If):
            state = self._eval_expr(st.test, state, on_raise)
            a = self.run_block(st.body, [state.copy()], on_raise, on_return, in_loop)
            b = self.run_block(st.orelse, [state.copy()], on_raise, on_return, in_loop)
            return self._dedup(a + b)
        if isinstance(st, (ast.For, ast.While)):
            head = st.iter if isinstance(st, ast.For) else st.test
            state = self._eval_expr(head, state, on_raise)
            if isinstance(st, ast.For):
                for n in ast.walk(st.target):
                    if isinstance(n, ast.Name):
                        state.env.pop(n.id, None)
            # fixed point: states at loop head
            heads = {state.key(): state}
            work = [state]
            exits = [state.copy()]  # zero iterations
            loopctl = {"break": [], "continue": []}
            it = 0
            while work:
                it += 1
                if it > 50:
                    raise Unsupported("loop fixed point not reached")
                s = work.pop()
                loopctl = {"break": [], "continue": []}
                outs = self.run_block(st.body, [s.copy()], on_raise, on_return, loopctl)
                outs = outs + loopctl["continue"]
                exits.extend(loopctl["break"])
                for o in outs:
                    if isinstance(st, ast.While):
                        o = self._eval_expr(st.test, o, on_raise)
                    exits.append(o.copy())
                    if o.key() not in heads:
                        heads[o.key()] = o
                        work.append(o)
            exits = self._dedup(exits)
            if st.orelse:
                exits = self.run_block(st.orelse, exits, on_raise, on_return, in_loop)
            return exits
        if isinstance(st, ast.Break):
            in_loop["break"].append(state)
            return []
        if isinstance(st, ast.Continue):
            in_loop["continue"].append(state)
            return []
        if isinstance(st, ast.With):
            return self._with(st, state, on_raise, on_return, in_loop)
        if isinstance(st, ast.Try):
            return self._try(st, state, on_raise, on_return, in_loop)
        raise Unsupported("statement %s at line %d" % (type(st).__name__, st.lineno))

    def _yield(self, y, state, on_raise):
        if y.value is not None:
            state = self._eval_expr(y.value, state, on_raise)
        if isinstance(y, ast.YieldFrom):
            on_raise(state.copy(), "exception@yield from")
            return [state]
        # the consumer's exception (the body of the `with`, or generator.throw/close) surfaces here
        on_raise(state.copy(), "exception@yield")
        return [state]

    def _with(self, st, state, on_raise, on_return, in_loop):
        sp = self.spec
        restores = []
        for item in st.items:
            ce = item.context_expr
            if isinstance(ce, ast.Call):
                text = self._callee_text(ce)
                m = self._match(sp.cm_calls, text)
                # arguments are evaluated first
                for a in list(ce.args) + [k.value for k in ce.keywords]:
                    state = self._eval_expr(a, state, on_raise)
                if m:
                    before = {loc: state.loc[loc] for loc in m[1]}
                    on_raise(state.copy(), "exception@" + text + ".__enter__")
                    for loc in m[1]:
                        state.loc[loc] = MOD
                    restores.append(before)
                    continue
                self.unknown_calls.add(text + " (context manager)")
                on_raise(state.copy(), "exception@" + text)
            else:
                state = self._eval_expr(ce, state, on_raise)
            restores.append({})
            if item.optional_vars is not None:
                for n in ast.walk(item.optional_vars):
                    if isinstance(n, ast.Name):
                        state.env.pop(n.id, None)

        def restore(s):
            s = s.copy()
            for before in reversed(restores):
                for loc, v in before.items():
                    s.loc[loc] = v  # the callee context manager's contract: every exit restores
            return s

        def inner_raise(s, label):
            on_raise(restore(s), label)

        def inner_return(s):
            on_return(restore(s))

        wrapped_loop = None
        if in_loop is not None:
            wrapped_loop = {"break": [], "continue": []}
        outs = self.run_block(st.body, [state], inner_raise, inner_return, wrapped_loop)
        if in_loop is not None:
            in_loop["break"].extend(restore(s) for s in wrapped_loop["break"])
            in_loop["continue"].extend(restore(s) for s in wrapped_loop["continue"])
        return [restore(s) for s in outs]

    def _try(self, st, state, on_raise, on_return, in_loop):
        fin = st.finalbody

        def run_final(s, cont):
            if not fin:
                cont(s)
                return
            outs = self.run_block(fin, [s.copy()], on_raise, on_return, in_loop)
            for o in outs:
                cont(o)

        caught_states = []

        def body_raise(s, label):
            if st.handlers:
                caught_states.append((s, label))
                # an exception type not matched by the handlers escapes (unless a bare / Exception / BaseException handler exists)
                broad = any(h.type is None or (isinstance(h.type, ast.Name) and h.type.id in ("Exception", "BaseException")) for h in st.handlers)
                if not broad:
                    run_final(s, lambda o: on_raise(o, label))
            else:
                run_final(s, lambda o: on_raise(o, label))

        def body_return(s):
            run_final(s, on_return)

        wrapped_loop = {"break": [], "continue": []} if in_loop is not None else None
        outs = self.run_block(st.body, [state], body_raise, body_return, wrapped_loop)
        if st.orelse:
            outs = self.run_block(st.orelse, outs, body_raise, body_return, wrapped_loop)
        # handlers
        for s, label in caught_states:
            for h in st.handlers:
                def h_raise(s2, l2):
                    run_final(s2, lambda o: on_raise(o, l2))

                houts = self.run_block(h.body, [s.copy()], h_raise, body_return, wrapped_loop)
                outs.extend(houts)
        res = []
        for o in self._dedup(outs):
            run_final(o, res.append)
        if in_loop is not None:
            for kind in ("break", "continue"):
                for s in wrapped_loop[kind]:
                    run_final(s, in_loop[kind].append)
        return self._dedup(res)

    # ---- driver
    def analyze(self):
        self.unknown_calls = set()
        init = State({loc: ORIG for loc in self.spec.locs}, {})
        normal, exceptional = [], []

        def on_return(s):
            normal.append(s)

        def on_raise(s, label):
            exceptional.append((label, s))

        outs = self.run_block(self.fnode.body, [init], on_raise, on_return, None)
        normal.extend(outs)
        return normal, exceptional


def obligations(repo, spec):
    """-> list of dict(name, ok, clause, detail)"""
    out = []
    try:
        fnode, path = load_function(repo, spec.func)
    except Exception as ex:
        return [dict(name="function_found", ok=False, clause="the function under contract exists", detail=repr(ex))], set()
    an = Analyzer(spec, fnode)
    try:
        normal, exceptional = an.analyze()
    except Unsupported as ex:
        return [dict(name="supported_subset", ok=False, clause="function is inside the analysed Python subset", detail=str(ex))], set()
    bad = [s for s in normal if any(v != ORIG for v in s.loc.values())]
    out.append(dict(name="normal_exit", ok=not bad and bool(normal),
                    clause="on every normal exit each tracked location (%s) holds its entry value" % ", ".join(spec.locs),
                    detail="" if not bad else "a normal exit leaves %s modified" % sorted({k for s in bad for k, v in s.loc.items() if v != ORIG})))
    # group exceptional edges by label (callee) -- one obligation per raising site kind
    bylabel = {}
    for label, s in exceptional:
        bylabel.setdefault(label, []).append(s)
    for label, sts in sorted(bylabel.items()):
        badl = [s for s in sts if any(v != ORIG for v in s.loc.values())]
        out.append(dict(name=label, ok=not badl,
                        clause="if an exception leaves the function at `%s`, each tracked location (%s) holds its entry value" % (label.replace("exception@", ""), ", ".join(spec.locs)),
                        detail="" if not badl else "exceptional exit with %s modified and no enclosing finally/with restoring it"
                        % sorted({k for s in badl for k, v in s.loc.items() if v != ORIG})))
    return out, an.unknown_calls

"""Engine A (frame analysis): verification conditions for "temporary override" functions (C17).

For a function of the repository (read from the current source with `ast` on every run) and a *frame specification*
(which abstract locations it may modify, which callees modify / restore / snapshot them), generate one obligation per
exit of the function -- the normal exits AND every exceptional edge (any call may raise; an exception thrown into a
generator-based context manager arrives at its `yield`) -- saying that every tracked location holds its entry value.

Abstract domain per location: ORIG (provably the entry value) or MOD (anything).  Locals may hold SNAP(loc): a
reference/copy of the entry value of loc.  MOD is conservative, so a discharged obligation is sound for the real
function under the stated callee contracts (listed in the spec and reported as assumptions unless they have their
own obligations).  Loops are iterated to the fixed point of the finite domain (an inferred invariant).

Python subset: assignments, expression statements, if/for/while, with, try/finally, try/except (handler bodies are
analysed, exceptions are assumed to possibly escape unless the handler is bare `except:`/`except Exception` without
re-raise), return, yield (statement or in `with ... : yield`), assert, pass, nested defs are skipped.
Anything else -> the function is rejected (obligation `supported_subset` fails), never silently skipped.
"""
from __future__ import annotations

import ast
import os

ORIG, MOD = "ORIG", "MOD"

NO_RAISE_CALLS = {"list", "len", "range", "zip", "isinstance", "enumerate", "set", "dict", "tuple", "id", "hasattr", "str", "print",
                  "combinations", "sorted", "float", "int", "bool", "type"}


class Spec:
    def __init__(self, func, locs, snapshot_exprs=(), snapshot_calls=(), restore_assign=(), restore_calls=(), mutate_calls=(),
                 cm_calls=(), pure_calls=(), is_contextmanager=False, note="", restore_stmts=(), mutate_assign=(), snapshot_patterns=()):
        """
        func            "module:qualname"
        locs            names of abstract locations, e.g. ["chains_idx", "params"]
        snapshot_exprs  [(source_text_of_expression, loc)]   evaluating it yields (a reference to / copy of) the current value of loc
        snapshot_calls  [(callee_text, loc)]                 `x = callee(...)` snapshots loc (callee contract)
        restore_assign  [(target_text, loc)]                 `target = x` with x a snapshot of loc restores loc; with anything else modifies it
        restore_calls   [(callee_text, loc)]                 `callee(x)` with x (first argument) a snapshot of loc restores it; with anything else modifies it
        mutate_calls    [(callee_text, [locs])]              callee may modify the locations (also on its exceptional exit)
        cm_calls        [(callee_text, [locs])]              `with callee(...):` modifies locs on entry and restores them on every exit (callee's own contract)
        pure_calls      [callee_text]                        calls that modify nothing tracked (they may still raise)
        """
        self.func = func
        self.locs = list(locs)
        self.snapshot_exprs = list(snapshot_exprs)
        self.snapshot_calls = list(snapshot_calls)
        self.restore_assign = list(restore_assign)
        self.restore_calls = list(restore_calls)
        self.mutate_calls = list(mutate_calls)
        self.cm_calls = list(cm_calls)
        self.pure_calls = list(pure_calls)
        self.is_contextmanager = is_contextmanager
        self.note = note
        self.restore_stmts = list(restore_stmts)  # [(statement source text, loc, snapshot variable)]
        self.mutate_assign = list(mutate_assign)  # [(target text, loc)] assignment that modifies loc whatever the value
        # structural snapshot / restore idioms, matched on the AST shape (local variable names are free):
        #   ("getter_over_keys", loc, {"container": <parameter name>, "getter": "*.get", "kw": {"val_in_fit": "False"}})
        #        d = {k: getter(k, **kw) for k in container[.keys()|.items()]}   or   d = {} ; for k in ...: d[k] = getter(k, **kw)
        #   ("attr_list", loc, {"attr": "mask_factor"})
        #        xs = [getattr(o, attr, default) | o.attr  for o in C]        snapshot;   for o, v in zip(C, xs): o.attr = v    restore
        self.snapshot_patterns = list(snapshot_patterns)


class Unsupported(Exception):
    pass


def _src(node):
    return ast.unparse(node)


def load_function(repo, func):
    modname, qual = func.split(":")
    path = os.path.join(repo, "tf_pwa", *modname.split(".")) + ".py"
    src = open(path).read()
    tree = ast.parse(src)
    node = tree
    for part in qual.split("."):
        found = None
        for ch in ast.iter_child_nodes(node):
            if isinstance(ch, (ast.FunctionDef, ast.ClassDef)) and ch.name == part:
                found = ch
                break
        if found is None:
            raise KeyError("%s not found in %s" % (qual, path))
        node = found
    return node, path


def _iter_over_container(it, container):
    """does `it` iterate over the keys of the mapping named `container`?  container | container.keys() | list(container) | container.items()
    -> "keys" / "items" / None"""
    t = _src(it)
    if t in (container, container + ".keys()", "list(%s)" % container, "list(%s.keys())" % container, "sorted(%s)" % container):
        return "keys"
    if t in (container + ".items()", "list(%s.items())" % container):
        return "items"
    return None


def _loop_key_name(target, mode):
    if mode == "keys" and isinstance(target, ast.Name):
        return target.id
    if mode == "items" and isinstance(target, ast.Tuple) and len(target.elts) == 2 and isinstance(target.elts[0], ast.Name):
        return target.elts[0].id
    return None


def _is_getter_of(call, key, opts, match):
    """call == getter(key, **required keywords)"""
    if not isinstance(call, ast.Call) or not match([(opts["getter"],)], _src(call.func)):
        return False
    if len(call.args) != 1 or not (isinstance(call.args[0], ast.Name) and call.args[0].id == key):
        return False
    kws = {k.arg: _src(k.value) for k in call.keywords}
    return all(kws.get(k) == v for k, v in opts.get("kw", {}).items())


def _reads_attr(node, var, attr):
    """node == var.attr   or   getattr(var, 'attr'[, default])"""
    if isinstance(node, ast.Attribute) and node.attr == attr and isinstance(node.value, ast.Name) and node.value.id == var:
        return True
    if isinstance(node, ast.Call) and isinstance(node.func, ast.Name) and node.func.id == "getattr" and len(node.args) >= 2:
        a0, a1 = node.args[0], node.args[1]
        return isinstance(a0, ast.Name) and a0.id == var and isinstance(a1, ast.Constant) and a1.value == attr
    return False


class State:
    __slots__ = ("loc", "env")

    def __init__(self, loc, env):
        self.loc = dict(loc)  # location -> ORIG/MOD
        self.env = dict(env)  # local name -> loc it snapshots

    def copy(self):
        return State(self.loc, self.env)

    def key(self):
        return (tuple(sorted(self.loc.items())), tuple(sorted(self.env.items())))

    def join(self, other):
        s = State(self.loc, {})
        for k in s.loc:
            if other.loc[k] != s.loc[k]:
                s.loc[k] = MOD
        for k, v in self.env.items():
            if other.env.get(k) == v:
                s.env[k] = v
        return s


class Analyzer:
    """forward abstract interpretation with explicit exceptional edges"""

    def __init__(self, spec, fnode):
        self.spec = spec
        self.fnode = fnode
        self.exits = []  # (kind, label, State)
        self.call_count = {}
        self.empty_dicts = {}
        self.snap_container = {}
        self.is_cm = spec.is_contextmanager or any(
            (isinstance(d, ast.Attribute) and d.attr == "contextmanager") or (isinstance(d, ast.Name) and d.id == "contextmanager")
            for d in fnode.decorator_list)

    # ---- helpers
    def _callee_text(self, call):
        return _src(call.func)

    def _match(self, table, text):
        """exact source text, or - for entries written `*.name` - any receiver: `name`, `x.name`, `a.b.name` (the contract is about the
        METHOD / ATTRIBUTE of the library's API, not about the name of the local variable that holds the object)"""
        for entry in table:
            pat = entry[0]
            if pat == text:
                return entry
            if pat.startswith("*."):
                tail = pat[2:]
                if text == tail or text.endswith("." + tail):
                    return entry
        return None

    def _label(self, call):
        t = self._callee_text(call)
        return t

    def _calls_in(self, node):
        """calls in evaluation order (approximately: inner first)"""
        out = []
        for n in ast.walk(node):
            if isinstance(n, ast.Call):
                out.append(n)
        # inner calls are evaluated before outer ones: sort by depth descending is not needed for the abstraction
        return out[::-1]

    def _raise_edge(self, state, label, handlers):
        """an exception leaves the current statement in `state`: route it through enclosing try blocks"""
        handlers(state.copy(), label)

    # ---- effects of one call (returns state after normal return; registers the exceptional edge)
    def _apply_call(self, call, state, on_raise, assign_target=None):
        text = self._callee_text(call)
        name = text.split(".")[-1]
        sp = self.spec
        m = self._match(sp.restore_calls, text)
        if m:
            loc = m[1]
            restores = any(isinstance(arg, ast.Name) and state.env.get(arg.id) == loc for arg in call.args)
            if not restores:
                # a modifying call: it may raise before or after having written -> MOD on the exceptional edge
                exc = state.copy()
                exc.loc[loc] = MOD
                on_raise(exc, "exception@" + text)
            # assumption (reported): re-installing a previously held value does not raise
            state.loc[loc] = ORIG if restores else MOD
            return state
        m = self._match(sp.mutate_calls, text)
        if m:
            exc = state.copy()
            for loc in m[1]:
                exc.loc[loc] = MOD
                state.loc[loc] = MOD
            on_raise(exc, "exception@" + text)
            return state
        m = self._match(sp.snapshot_calls, text) or self._match(sp.snapshot_calls, _src(call))
        if m:
            on_raise(state.copy(), "exception@" + text)
            if assign_target is not None and state.loc[m[1]] == ORIG:
                state.env[assign_target] = m[1]
            return state
        if text in NO_RAISE_CALLS or name in NO_RAISE_CALLS:
            return state
        # unknown or pure call: modifies nothing tracked (frame assumption for pure_calls; unknown calls are treated as pure
        # but LISTED in the report), may raise
        if text not in sp.pure_calls:
            self.unknown_calls.add(text)
        on_raise(state.copy(), "exception@" + text)
        return state

    def _eval_expr(self, node, state, on_raise, assign_target=None):
        """process all calls inside an expression"""
        if node is None:
            return state
        calls = self._calls_in(node)
        for c in calls:
            tgt = assign_target if c is node else None
            state = self._apply_call(c, state, on_raise, tgt)
        return state

    # ---- structural idioms (Spec.snapshot_patterns)
    def _pattern_snapshot(self, value, state, tname):
        """value of an assignment that IS a snapshot by shape; also remembers empty dict literals as candidates for the loop idiom"""
        for kind, loc, opts in self.spec.snapshot_patterns:
            if kind == "getter_over_keys":
                if isinstance(value, ast.DictComp) and len(value.generators) == 1 and not value.generators[0].ifs:
                    gen = value.generators[0]
                    mode = _iter_over_container(gen.iter, opts["container"])
                    key = _loop_key_name(gen.target, mode) if mode else None
                    if key and isinstance(value.key, ast.Name) and value.key.id == key and _is_getter_of(value.value, key, opts, self._match) \
                            and state.loc[loc] == ORIG:
                        return loc
                if tname and ((isinstance(value, ast.Dict) and not value.keys) or (isinstance(value, ast.Call) and _src(value) == "dict()")):
                    self.empty_dicts[tname] = True
            if kind == "attr_list":
                if isinstance(value, ast.ListComp) and len(value.generators) == 1 and not value.generators[0].ifs:
                    gen = value.generators[0]
                    if isinstance(gen.target, ast.Name) and _reads_attr(value.elt, gen.target.id, opts["attr"]) and state.loc[loc] == ORIG:
                        if tname:
                            self.snap_container[tname] = _src(gen.iter)
                        return loc
        return None

    def _pattern_loop(self, st, state, on_raise):
        """a `for` statement that as a whole is a snapshot-filling loop or a restore loop; returns the fall-through states or None"""
        if st.orelse or len(st.body) != 1 or not isinstance(st.body[0], ast.Assign) or len(st.body[0].targets) != 1:
            return None
        asg = st.body[0]
        tgt = asg.targets[0]
        for kind, loc, opts in self.spec.snapshot_patterns:
            if kind == "getter_over_keys" and isinstance(tgt, ast.Subscript) and isinstance(tgt.value, ast.Name) and tgt.value.id in self.empty_dicts:
                mode = _iter_over_container(st.iter, opts["container"])
                key = _loop_key_name(st.target, mode) if mode else None
                if key and isinstance(tgt.slice, ast.Name) and tgt.slice.id == key and _is_getter_of(asg.value, key, opts, self._match):
                    on_raise(state.copy(), "exception@" + _src(asg.value.func))
                    if state.loc[loc] == ORIG:
                        state.env[tgt.value.id] = loc
                    self.empty_dicts.pop(tgt.value.id, None)
                    return [state]
            if kind == "attr_list" and isinstance(st.iter, ast.Call) and _src(st.iter.func) == "zip" and len(st.iter.args) == 2 \
                    and isinstance(st.target, ast.Tuple) and len(st.target.elts) == 2 and all(isinstance(e, ast.Name) for e in st.target.elts):
                cont, snap = st.iter.args
                o, v = (e.id for e in st.target.elts)
                if isinstance(snap, ast.Name) and isinstance(tgt, ast.Attribute) and tgt.attr == opts["attr"] and isinstance(tgt.value, ast.Name) \
                        and tgt.value.id == o and isinstance(asg.value, ast.Name) and asg.value.id == v:
                    same_container = self.snap_container.get(snap.id) == _src(cont)
                    state.loc[loc] = ORIG if (state.env.get(snap.id) == loc and same_container) else MOD
                    return [state]
        return None

    # ---- statements: returns list of fall-through states
    def run_block(self, stmts, states, on_raise, on_return, in_loop=None):
        for st in stmts:
            nxt = []
            for s in states:
                nxt.extend(self.run_stmt(st, s, on_raise, on_return, in_loop))
            states = self._dedup(nxt)
            if not states:
                break
        return states

    def _dedup(self, states):
        seen = {}
        for s in states:
            seen.setdefault(s.key(), s)
        return list(seen.values())

    def run_stmt(self, st, state, on_raise, on_return, in_loop):
        sp = self.spec
        state = state.copy()
        for text, loc, var in sp.restore_stmts:
            if _src(st) == text:
                if state.env.get(var) == loc:
                    state.loc[loc] = ORIG
                else:
                    state.loc[loc] = MOD
                return [state]
        if isinstance(st, (ast.Pass, ast.Import, ast.ImportFrom, ast.Global, ast.Nonlocal, ast.FunctionDef, ast.ClassDef)):
            return [state]
        if isinstance(st, ast.Expr):
            v = st.value
            if isinstance(v, (ast.Yield, ast.YieldFrom)):
                return self._yield(v, state, on_raise)
            if isinstance(v, ast.Constant):
                return [state]
            return [self._eval_expr(v, state, on_raise)]
        if isinstance(st, (ast.Assign, ast.AnnAssign, ast.AugAssign)):
            value = st.value
            targets = st.targets if isinstance(st, ast.Assign) else [st.target]
            if isinstance(value, (ast.Yield, ast.YieldFrom)):
                outs = self._yield(value, state, on_raise)
                return outs
            tname = targets[0].id if len(targets) == 1 and isinstance(targets[0], ast.Name) else None
            # snapshot by expression
            snap_loc = None
            if value is not None:
                vt = _src(value)
                m = self._match(sp.snapshot_exprs, vt)
                if m and state.loc[m[1]] == ORIG:
                    snap_loc = m[1]
                elif isinstance(value, ast.Name) and value.id in state.env:
                    snap_loc = state.env[value.id]
                else:
                    snap_loc = self._pattern_snapshot(value, state, tname)
            state = self._eval_expr(value, state, on_raise, assign_target=tname)
            for t in targets:
                tt = _src(t)
                m = self._match(sp.restore_assign, tt)
                if m:
                    loc = m[1]
                    if isinstance(value, ast.Name) and state.env.get(value.id) == loc:
                        state.loc[loc] = ORIG
                    else:
                        state.loc[loc] = MOD
                elif self._match(sp.mutate_assign, tt):
                    state.loc[self._match(sp.mutate_assign, tt)[1]] = MOD
                elif isinstance(t, ast.Name):
                    if snap_loc is not None:
                        state.env[t.id] = snap_loc
                    elif not (tname and tname in state.env and value is not None and isinstance(value, ast.Call)
                              and (self._match(sp.snapshot_calls, self._callee_text(value)) or self._match(sp.snapshot_calls, _src(value)))):
                        state.env.pop(t.id, None)
                elif isinstance(t, (ast.Tuple, ast.List)):
                    for e in t.elts:
                        if isinstance(e, ast.Name):
                            state.env.pop(e.id, None)
                # attribute / subscript targets that are not tracked: no effect on the abstraction
            return [state]
        if isinstance(st, ast.Assert):
            return [self._eval_expr(st.test, state, on_raise)]
        if isinstance(st, ast.Return):
            state = self._eval_expr(st.value, state, on_raise)
            on_return(state)
            return []
        if isinstance(st, ast.Raise):
            state = self._eval_expr(st.exc, state, on_raise)
            on_raise(state, "raise")
            return []
        if isinstance(st, ast.If):
            state = self._eval_expr(st.test, state, on_raise)
            a = self.run_block(st.body, [state.copy()], on_raise, on_return, in_loop)
            b = self.run_block(st.orelse, [state.copy()], on_raise, on_return, in_loop)
            return self._dedup(a + b)
        if isinstance(st, ast.For):
            done = self._pattern_loop(st, state, on_raise)
            if done is not None:
                return done
        if isinstance(st, (ast.For, ast.While)):
            head = st.iter if isinstance(st, ast.For) else st.test
            state = self._eval_expr(head, state, on_raise)
            if isinstance(st, ast.For):
                for n in ast.walk(st.target):
                    if isinstance(n, ast.Name):
                        state.env.pop(n.id, None)
            # fixed point: states at loop head
            heads = {state.key(): state}
            work = [state]
            exits = [state.copy()]  # zero iterations
            loopctl = {"break": [], "continue": []}
            it = 0
            while work:
                it += 1
                if it > 50:
                    raise Unsupported("loop fixed point not reached")
                s = work.pop()
                loopctl = {"break": [], "continue": []}
                outs = self.run_block(st.body, [s.copy()], on_raise, on_return, loopctl)
                outs = outs + loopctl["continue"]
                exits.extend(loopctl["break"])
                for o in outs:
                    if isinstance(st, ast.While):
                        o = self._eval_expr(st.test, o, on_raise)
                    exits.append(o.copy())
                    if o.key() not in heads:
                        heads[o.key()] = o
                        work.append(o)
            exits = self._dedup(exits)
            if st.orelse:
                exits = self.run_block(st.orelse, exits, on_raise, on_return, in_loop)
            return exits
        if isinstance(st, ast.Break):
            in_loop["break"].append(state)
            return []
        if isinstance(st, ast.Continue):
            in_loop["continue"].append(state)
            return []
        if isinstance(st, ast.With):
            return self._with(st, state, on_raise, on_return, in_loop)
        if isinstance(st, ast.Try):
            return self._try(st, state, on_raise, on_return, in_loop)
        raise Unsupported("statement %s at line %d" % (type(st).__name__, st.lineno))

    def _yield(self, y, state, on_raise):
        if y.value is not None:
            state = self._eval_expr(y.value, state, on_raise)
        if isinstance(y, ast.YieldFrom):
            on_raise(state.copy(), "exception@yield from")
            return [state]
        # the consumer's exception (the body of the `with`, or generator.throw/close) surfaces here
        on_raise(state.copy(), "exception@yield")
        return [state]

    def _with(self, st, state, on_raise, on_return, in_loop):
        sp = self.spec
        restores = []
        for item in st.items:
            ce = item.context_expr
            if isinstance(ce, ast.Call):
                text = self._callee_text(ce)
                m = self._match(sp.cm_calls, text)
                # arguments are evaluated first
                for a in list(ce.args) + [k.value for k in ce.keywords]:
                    state = self._eval_expr(a, state, on_raise)
                if m:
                    before = {loc: state.loc[loc] for loc in m[1]}
                    on_raise(state.copy(), "exception@" + text + ".__enter__")
                    for loc in m[1]:
                        state.loc[loc] = MOD
                    restores.append(before)
                    continue
                self.unknown_calls.add(text + " (context manager)")
                on_raise(state.copy(), "exception@" + text)
            else:
                state = self._eval_expr(ce, state, on_raise)
            restores.append({})
            if item.optional_vars is not None:
                for n in ast.walk(item.optional_vars):
                    if isinstance(n, ast.Name):
                        state.env.pop(n.id, None)

        def restore(s):
            s = s.copy()
            for before in reversed(restores):
                for loc, v in before.items():
                    s.loc[loc] = v  # the callee context manager's contract: every exit restores
            return s

        def inner_raise(s, label):
            on_raise(restore(s), label)

        def inner_return(s):
            on_return(restore(s))

        wrapped_loop = None
        if in_loop is not None:
            wrapped_loop = {"break": [], "continue": []}
        outs = self.run_block(st.body, [state], inner_raise, inner_return, wrapped_loop)
        if in_loop is not None:
            in_loop["break"].extend(restore(s) for s in wrapped_loop["break"])
            in_loop["continue"].extend(restore(s) for s in wrapped_loop["continue"])
        return [restore(s) for s in outs]

    def _try(self, st, state, on_raise, on_return, in_loop):
        fin = st.finalbody

        def run_final(s, cont):
            if not fin:
                cont(s)
                return
            outs = self.run_block(fin, [s.copy()], on_raise, on_return, in_loop)
            for o in outs:
                cont(o)

        caught_states = []

        def body_raise(s, label):
            if st.handlers:
                caught_states.append((s, label))
                # an exception type not matched by the handlers escapes (unless a bare / Exception / BaseException handler exists)
                broad = any(h.type is None or (isinstance(h.type, ast.Name) and h.type.id in ("Exception", "BaseException")) for h in st.handlers)
                if not broad:
                    run_final(s, lambda o: on_raise(o, label))
            else:
                run_final(s, lambda o: on_raise(o, label))

        def body_return(s):
            run_final(s, on_return)

        wrapped_loop = {"break": [], "continue": []} if in_loop is not None else None
        outs = self.run_block(st.body, [state], body_raise, body_return, wrapped_loop)
        if st.orelse:
            outs = self.run_block(st.orelse, outs, body_raise, body_return, wrapped_loop)
        # handlers
        for s, label in caught_states:
            for h in st.handlers:
                def h_raise(s2, l2):
                    run_final(s2, lambda o: on_raise(o, l2))

                houts = self.run_block(h.body, [s.copy()], h_raise, body_return, wrapped_loop)
                outs.extend(houts)
        res = []
        for o in self._dedup(outs):
            run_final(o, res.append)
        if in_loop is not None:
            for kind in ("break", "continue"):
                for s in wrapped_loop[kind]:
                    run_final(s, in_loop[kind].append)
        return self._dedup(res)

    # ---- driver
    def analyze(self):
        self.unknown_calls = set()
        init = State({loc: ORIG for loc in self.spec.locs}, {})
        normal, exceptional = [], []

        def on_return(s):
            normal.append(s)

        def on_raise(s, label):
            exceptional.append((label, s))

        outs = self.run_block(self.fnode.body, [init], on_raise, on_return, None)
        normal.extend(outs)
        return normal, exceptional


def obligations(repo, spec):
    """-> list of dict(name, ok, clause, detail)"""
    out = []
    try:
        fnode, path = load_function(repo, spec.func)
    except Exception as ex:
        return [dict(name="function_found", ok=False, clause="the function under contract exists", detail=repr(ex))], set()
    an = Analyzer(spec, fnode)
    try:
        normal, exceptional = an.analyze()
    except Unsupported as ex:
        return [dict(name="supported_subset", ok=False, clause="function is inside the analysed Python subset", detail=str(ex))], set()
    bad = [s for s in normal if any(v != ORIG for v in s.loc.values())]
    out.append(dict(name="normal_exit", ok=not bad and bool(normal),
                    clause="on every normal exit each tracked location (%s) holds its entry value" % ", ".join(spec.locs),
                    detail="" if not bad else "a normal exit leaves %s modified" % sorted({k for s in bad for k, v in s.loc.items() if v != ORIG})))
    # group exceptional edges by label (callee) -- one obligation per raising site kind
    bylabel = {}
    tables = spec.restore_calls + spec.mutate_calls + spec.cm_calls + [(c[0].split("(")[0],) for c in spec.snapshot_calls] \
        + [(o["getter"],) for k_, l_, o in spec.snapshot_patterns if "getter" in o]
    for label, s in exceptional:
        core = label.replace("exception@", "").replace(".__enter__", "")
        m = an._match(tables, core)
        if label in ("raise", "exception@yield", "exception@yield from"):
            key = label
        elif m is not None:
            # named after the API method of the contract table (receiver-independent)
            key = "exception@" + (m[0][2:] if m[0].startswith("*.") else m[0]) + (".__enter__" if label.endswith(".__enter__") else "")
        else:
            key = "exception@other_calls"  # calls that are not part of any contract table: one obligation, stable under incidental edits
        bylabel.setdefault(key, []).append(s)
    bylabel.setdefault("exception@other_calls", [])  # always present (holds vacuously when there is no such call): stable obligation set
    for label, sts in sorted(bylabel.items()):
        badl = [s for s in sts if any(v != ORIG for v in s.loc.values())]
        out.append(dict(name=label, ok=not badl,
                        clause="if an exception leaves the function at `%s`, each tracked location (%s) holds its entry value" % (label.replace("exception@", ""), ", ".join(spec.locs)),
                        detail="" if not badl else "exceptional exit with %s modified and no enclosing finally/with restoring it"
                        % sorted({k for s in badl for k, v in s.loc.items() if v != ORIG})))
    return out, an.unknown_calls

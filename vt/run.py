"""Check driver:  python -m vt.run <PROP> --tier quick|thorough [--replay FILE] [--update-lock]

Exit codes: 0 held / 1 violation (VIOLATION line printed) / 2 undecided only / 3 machinery crash.
"""
from __future__ import annotations

import argparse
import concurrent.futures as cf
import importlib
import json
import multiprocessing as mp
import os
import subprocess
import sys
import time

HERE = os.path.dirname(os.path.dirname(os.path.abspath(__file__)))
sys.path.insert(0, HERE)

from vt.core import oblig  # noqa: E402

LOCK = os.path.join(HERE, "obligations.lock")
KNOWN = os.path.join(HERE, "known_findings.json")
OUT = os.path.join(HERE, "out")
EVID = os.path.join(HERE, "evidence")

GLOBAL_ASSUMPTIONS = [
    "A-REAL: machine floats are read as mathematical reals; definedness (no division by zero, no sqrt of a negative) is a separate obligation",
    "A-OPS: the TensorFlow/NumPy op models of vt/core/shim_tf.py (checked only differentially against real TF on sampled points)",
    "A-PY: CPython executes the repository function (Engine S) / the Python subset semantics of the VC generator (Engine A)",
    "the z3 5.1 / cvc5 solvers and sympy's polynomial arithmetic (ring normaliser)",
]


def _worker(args):
    prop, name, tier, seed = args
    sys.path.insert(0, HERE)
    from vt.core import oblig as ob

    return ob.run_group(prop, name, tier, seed)


def _native_worker(args):
    prop, tier, seed, names = args
    sys.path.insert(0, HERE)
    from vt import native

    return native.differential(prop, names, tier, seed)


def load_lock():
    if os.path.exists(LOCK):
        return json.load(open(LOCK))
    return {}


def load_known():
    if os.path.exists(KNOWN):
        return json.load(open(KNOWN))
    return []


def write_replay(prop, r, extra=None):
    os.makedirs(os.path.join(OUT, "replay"), exist_ok=True)
    safe = "".join(c if c.isalnum() or c in "-_." else "_" for c in r["name"])[:150]
    path = os.path.join(OUT, "replay", "%s-%s.json" % (prop, safe))
    doc = {"property": prop, "group": r.get("group"), "obligation": r["name"], "clause": r.get("clause"),
           "function": r.get("func_info") or r.get("func"), "backend": r.get("backend"), "status": r.get("status"),
           "verifier_output": r.get("detail"), "witness": r.get("witness"),
           "replay_cmd": "bin/check %s --replay %s" % (prop, path)}
    if extra:
        doc.update(extra)
    json.dump(doc, open(path, "w"), indent=1, default=str)
    return path


def native_replay(prop, group, witness, timeout=600):
    """run the contract natively (real TF) on the witness; returns dict or None"""
    py = os.path.join(HERE, ".ovl", "bin", "python")
    try:
        p = subprocess.run([py, "-m", "vt.native", "replay", prop, group, json.dumps(witness or {})], cwd=HERE,
                           stdout=subprocess.PIPE, stderr=subprocess.PIPE, timeout=timeout, env=dict(os.environ, PYTHONPATH=HERE))
        for line in p.stdout.decode().splitlines():
            if line.startswith("RESULT "):
                return json.loads(line[7:])
        return {"error": (p.stderr.decode()[-1500:] or p.stdout.decode()[-500:])}
    except Exception as ex:  # pragma: no cover
        return {"error": repr(ex)}


def main(argv=None):
    ap = argparse.ArgumentParser()
    ap.add_argument("prop")
    ap.add_argument("--tier", default=os.environ.get("VERIF_TIER", "quick"))
    ap.add_argument("--replay")
    ap.add_argument("--update-lock", action="store_true")
    ap.add_argument("--only", default=None, help="comma separated group names (debugging)")
    ap.add_argument("--jobs", type=int, default=int(os.environ.get("VT_JOBS", "14")))
    a = ap.parse_args(argv)
    prop = a.prop
    tier = a.tier if a.tier in ("quick", "thorough") else "quick"
    seed = int(os.environ.get("VERIF_SEED", "0") or 0)
    t0 = time.time()
    if a.replay:
        return do_replay(prop, a.replay)
    mod = importlib.import_module("vt.props." + prop)
    specs = [s for (p, n), s in oblig.GROUPS.items() if p == prop and tier in s.tiers]
    if a.only:
        keep = set(a.only.split(","))
        specs = [s for s in specs if s.name in keep]
    shim_tasks = [(prop, s.name, tier, seed) for s in specs if s.env != "tf"]
    tf_tasks = [(prop, s.name, tier, seed) for s in specs if s.env == "tf"]
    sym_names = [s.name for s in specs if s.kind == "P" and s.env == "shim" and not s.opts.get("plain") and not s.opts.get("no_native")]
    ctx = mp.get_context("spawn")
    results, metas, crashes = [], [], []
    group_wall = {}
    nat = None
    with cf.ProcessPoolExecutor(max_workers=max(1, a.jobs - 3), mp_context=ctx, initializer=_die_with_parent) as ex1, \
            cf.ProcessPoolExecutor(max_workers=3, mp_context=ctx, initializer=_die_with_parent) as ex2:
        futs = {}
        # longest first
        order = sorted(shim_tasks, key=lambda t: -oblig.GROUPS[(prop, t[1])].opts.get("cost", 1))
        for t in order:
            futs[ex1.submit(_worker, t)] = t
        for t in tf_tasks:
            futs[ex2.submit(_worker, t)] = t
        nat_f = ex2.submit(_native_worker, (prop, tier, seed, sym_names)) if sym_names else None
        for f in cf.as_completed(futs):
            t = futs[f]
            try:
                out = f.result()
            except Exception as exn:  # worker died
                crashes.append("%s: %r" % (t[1], exn))
                continue
            results.extend(out["results"])
            group_wall[out["group"]] = out["wall_s"]
            if out["meta"]:
                metas.append(out["meta"])
        if nat_f is not None:
            try:
                nat = nat_f.result()
            except Exception as exn:
                crashes.append("native differential: %r" % (exn,))
    return conclude(prop, tier, seed, specs, results, metas, crashes, nat, group_wall, t0, a.update_lock, mod, partial=bool(a.only))


def conclude(prop, tier, seed, specs, results, metas, crashes, nat, group_wall, t0, update_lock, mod, partial=False):
    lock = load_lock()
    plock = lock.get(prop, {})
    known = [k for k in load_known() if k.get("property") == prop]
    known_open = {k["key"]: k for k in known if k.get("status") == "known"}
    byname = {}
    for r in results:
        byname[r["name"]] = r
    # differential results: native failures of contracts at sampled points are refutations with witnesses
    if nat:
        for item in nat.get("failures", []):
            r = oblig.mk_result(item["group"] + "/" + item["claim"] + "@native", "contract clause evaluated on the real function under real TF",
                                "B", "refuted", "native-eval", 0, item["detail"], witness=item["env"])
            r["group"] = item["group"]
            r["prop"] = prop
            byname[r["name"]] = r
            results.append(r)
        for e in nat.get("errors", []):
            crashes.append("native differential %s" % e)
    violations, knowns, undecided, errors = [], [], [], []
    finfo_cache = {}
    for r in results:
        st = r["status"]
        if st in ("proved", "held"):
            continue
        key = r["name"]
        if st == "error":
            errors.append(r)
            continue
        if st == "refuted":
            kf = _match_known(known_open, r)
            if kf:
                knowns.append((kf, r))
                continue
            violations.append(r)
            continue
        # undecided
        if key in plock and tier in plock[key].get("tiers", ["quick", "thorough"]):
            r["detail"] = "locked obligation no longer discharged: " + (r.get("detail") or "")
            kf = _match_known(known_open, r)
            if kf:
                knowns.append((kf, r))
            else:
                violations.append(r)
        else:
            undecided.append(r)
    # locked obligations that were not generated at all
    have = set(byname)
    if not partial:
        for key, meta in plock.items():
            if tier in meta.get("tiers", ["quick", "thorough"]) and key not in have:
                grp = meta.get("group")
                if any(e.get("group") == grp for e in errors):
                    continue  # already an error
                r = oblig.mk_result(key, meta.get("clause", ""), meta.get("kind", "P"), "missing", "-", 0,
                                    "locked obligation was not generated from the current tree")
                r["group"] = grp
                r["prop"] = prop
                errors.append(r)
    # replay of violations on the real code
    lines = []
    confirmed = []
    replays_per_group = {}
    group_rep = {}
    for r in violations:
        spec = oblig.GROUPS.get((prop, r.get("group")))
        rep = None
        if spec is not None and spec.kind == "P" and spec.env == "shim" and not spec.opts.get("plain") and not spec.opts.get("no_native") \
                and r.get("witness") and r["backend"] != "native-eval":
            g = spec.name
            if replays_per_group.get(g, 0) < 2 and sum(replays_per_group.values()) < 8:
                rep = native_replay(prop, spec.name, r["witness"])
                replays_per_group[g] = replays_per_group.get(g, 0) + 1
                if rep and rep.get("applicable") and rep.get("failures"):
                    group_rep[g] = rep
            elif g in group_rep:
                # replay budget used: the group's contract already failed natively on a witness of this run
                rep = dict(group_rep[g], note="native replay of this witness skipped (budget); another witness of the same contract group replayed")
        if r["backend"] == "native-eval":
            rep = {"applicable": True, "failures": [[r["name"], r["detail"]]]}
        native_fail = bool(rep and rep.get("applicable") and rep.get("failures"))
        if r["status"] == "refuted" and rep is not None and not native_fail and r["name"] not in plock and spec is not None and spec.kind == "P":
            # counter-model does not replay and the obligation never held on the locked tree: not a violation
            r["status"] = "undecided"
            r["detail"] = "refutation did not replay natively (%s): %s" % (rep, r.get("detail"))
            undecided.append(r)
            continue
        path = write_replay(prop, r, {"native_replay": rep})
        tail = "" if (native_fail or (r["status"] == "refuted" and r.get("concrete_input") and r.get("witness"))) else " no-failing-input-found"
        confirmed.append(r)
        lines.append("VIOLATION property=%s replay=%s obligation=%s%s" % (prop, path, r["name"], tail))
    for kf, r in knowns:
        print("KNOWN-FINDING: property=%s %s (%s)" % (prop, kf.get("what", kf["key"]), r["name"]))
    # evidence ---------------------------------------------------------
    level = getattr(mod, "LEVEL", "other")
    known_names = {r["name"] for _, r in knowns}
    undecided_names = {r["name"] for r in undecided}
    # obligations counted for the proof-level record: attempted P/G obligations, minus known findings (reported separately) and
    # minus never-locked undecided ones (reported under coverage.undecided_unlocked: attempted, not discharged, not claimed)
    pg = [r for r in results if r["kind"] in ("P", "G") and r["name"] not in known_names and r["name"] not in undecided_names]
    bb = [r for r in results if r["kind"] == "B"]
    proved = [r for r in pg if r["status"] == "proved"]
    for r in pg:
        if r["status"] != "proved" and r not in confirmed and not any(r is e for e in errors):
            print("  counted but not discharged: %s status=%s kind=%s [%s]" % (r["name"], r["status"], r["kind"], r["backend"]))
    be_count, be_time = {}, {}
    for r in results:
        be_count[r["backend"]] = be_count.get(r["backend"], 0) + 1
        be_time[r["backend"]] = round(be_time.get(r["backend"], 0) + r["time_s"], 3)
    funcs = sorted({f for s in specs for f in s.funcs})
    finfos = []
    for f in funcs:
        try:
            finfos.append(oblig.func_info(f))
        except Exception as exn:
            finfos.append({"function": f, "error": repr(exn)})
    samples = []
    seen_groups = set()
    for r in results:
        if r["group"] not in seen_groups and r["status"] in ("proved", "held"):
            seen_groups.add(r["group"])
            samples.append({"obligation": r["name"], "kind": r["kind"], "clause": r["clause"], "backend": r["backend"],
                            "status": r["status"], "solver_time_s": r["time_s"]})
    bounded_eval = sum(m["evaluations"] for m in metas if m["kind"] == "B")
    bounded_distinct = sum(m["distinct"] for m in metas if m["kind"] == "B")
    ground_eval = sum(m["evaluations"] for m in metas if m["kind"] == "G")
    assumptions = list(GLOBAL_ASSUMPTIONS) + list(getattr(mod, "ASSUMPTIONS", []))
    for s in specs:
        for x in s.opts.get("assumes", []):
            if x not in assumptions:
                assumptions.append(x)
    coverage = {
        "obligations": len(pg),
        "discharged": len(proved),
        "checker_cmd": "bin/check %s --tier %s" % (prop, tier),
        "trusted_base": ["z3 5.1.0", "cvc5 1.0.3 (second opinion)", "sympy polys (ring normaliser)", "CPython 3.12", "vt/core/shim_tf.py op models"],
        "explanation": getattr(mod, "EXPLANATION", ""),
        "evaluations": max(1, len(results) + bounded_eval + ground_eval),
        "distinct_nontrivial": max(2, len({r["name"] for r in results})),
        "rule": "one case = one named obligation generated from the current source of a function under contract; "
                "bounded groups additionally count their runtime-contract evaluations",
        "samples": samples[:12],
        "functions_under_contract": finfos,
        "obligations_by_kind": {"P_proved_for_all_inputs": len([r for r in proved if r["kind"] == "P"]),
                                "G_ground_exhaustive": len([r for r in proved if r["kind"] == "G"]),
                                "B_bounded_held_not_counted_as_proved": len([r for r in bb if r["status"] == "held"])},
        "backends": {"count": be_count, "solver_time_s": be_time},
        "bounded": {"groups": [m for m in metas if m["kind"] == "B"], "evaluations": bounded_eval, "distinct_nontrivial": bounded_distinct},
        "ground": {"groups": [m for m in metas if m["kind"] == "G"], "evaluations": ground_eval},
        "native_differential": ({k: nat[k] for k in ("groups", "points", "claims_checked")} if nat else None),
        "undecided_unlocked": [r["name"] for r in undecided],
        "known_findings_reported": [kf["key"] for kf, _ in knowns],
        "group_wall_s": {k: round(v, 2) for k, v in group_wall.items()},
        "exhaustive": False,
    }
    evidence = {"property_id": prop, "tier": tier, "seed": seed, "level": level, "coverage": coverage,
                "assumptions": assumptions, "wall_s": round(time.time() - t0, 2), "violations": len(confirmed)}
    os.makedirs(EVID, exist_ok=True)
    if not partial and not os.environ.get("VT_NO_EVIDENCE"):
        json.dump(evidence, open(os.path.join(EVID, prop + ".json"), "w"), indent=1, default=str)
    if os.environ.get("VT_TIMES"):
        os.makedirs(OUT, exist_ok=True)
        json.dump(sorted(([r["name"], r["kind"], r["backend"], r["status"], round(r["time_s"], 2)] for r in results), key=lambda x: -x[4])[:60],
                  open(os.path.join(OUT, "times_%s_%s.json" % (prop, tier)), "w"), indent=0)
    # report -----------------------------------------------------------
    print("%s tier=%s: %d obligations (P/G), %d discharged, %d bounded held, %d undecided(unlocked), %d known, %d violations, %d errors, %.1fs"
          % (prop, tier, len(pg), len(proved), len([r for r in bb if r["status"] == "held"]), len(undecided), len(knowns), len(confirmed),
             len(errors) + len(crashes), time.time() - t0))
    for r in undecided:
        print("  undecided (not locked): %s  [%s] %s" % (r["name"], r["backend"], (r.get("detail") or "")[:160]))
    for ln in lines:
        print(ln)
    if errors or crashes:
        os.makedirs(OUT, exist_ok=True)
        with open(os.path.join(OUT, "errors_%s.log" % prop), "a") as fh:
            for r in errors:
                fh.write("==== %s %s\n%s\n" % (time.strftime("%H:%M:%S"), r["name"], r.get("detail") or ""))
            for c in crashes:
                fh.write("==== CRASH %s\n" % c)
    for r in errors:
        print("ERROR %s: %s" % (r["name"], (r.get("detail") or "")[-1200:]))
    for c in crashes:
        print("CRASH %s" % c)
    if update_lock:
        new = {} if not partial else dict(plock)
        for r in results:
            if r["status"] in ("proved", "held"):
                ent = plock.get(r["name"], {})
                tiers = set(ent.get("tiers", [])) if r["name"] in plock else set()
                tiers.add(tier)
                if r["name"] in new:
                    tiers |= set(new[r["name"]].get("tiers", []))
                new[r["name"]] = {"kind": r["kind"], "backend": r["backend"], "group": r["group"], "clause": r["clause"][:160], "tiers": sorted(tiers)}
        if not partial:
            # keep entries of the other tier
            for k, v in plock.items():
                other = [t for t in v.get("tiers", []) if t != tier]
                if k not in new and other:
                    new[k] = dict(v, tiers=other)
                elif k in new and other:
                    new[k]["tiers"] = sorted(set(new[k]["tiers"]) | set(other))
        lock[prop] = dict(sorted(new.items()))
        json.dump(lock, open(LOCK, "w"), indent=0, sort_keys=True)
        print("lock updated: %d obligations for %s" % (len(new), prop))
    if confirmed:
        return 1
    if errors or crashes:
        return 3
    return 0


def _die_with_parent():
    """worker initializer: SIGKILL this worker when the driver dies (no orphaned workers after a killed check)"""
    try:
        import ctypes
        import signal

        ctypes.CDLL("libc.so.6", use_errno=True).prctl(1, signal.SIGKILL)  # PR_SET_PDEATHSIG
    except Exception:
        pass


def _match_known(known_open, r):
    for key, kf in known_open.items():
        if key == r["name"] or (key.endswith("*") and r["name"].startswith(key[:-1])):
            return kf
    return None


def do_replay(prop, path):
    doc = json.load(open(path))
    print("replay of %s" % doc["obligation"])
    print("clause: %s" % doc.get("clause"))
    print("verifier: %s" % doc.get("verifier_output"))
    importlib.import_module("vt.props." + prop)
    spec = oblig.GROUPS.get((prop, doc.get("group")))
    if spec is None:
        print("unknown group")
        return 3
    if spec.kind == "P" and spec.env == "shim" and doc.get("witness"):
        rep = native_replay(prop, spec.name, doc["witness"])
        print("native replay on the real code: %s" % json.dumps(rep, indent=1))
        return 1 if rep and rep.get("failures") else 0
    # ground / bounded: re-run the group and show the obligation
    out = oblig.run_group(prop, spec.name, "quick", int(os.environ.get("VERIF_SEED", "0") or 0)) if spec.env != "tf" else None
    if out is None:
        py = os.path.join(HERE, ".ovl", "bin", "python")
        return subprocess.call([py, "-m", "vt.run", prop, "--only", spec.name], cwd=HERE)
    bad = [r for r in out["results"] if r["name"] == doc["obligation"] and r["status"] not in ("proved", "held")]
    for r in bad:
        print("still failing: %s %s" % (r["name"], r["detail"]))
    return 1 if bad else 0


if __name__ == "__main__":
    sys.exit(main())

"""native replay of the C17 frame-obligation failures on a repository tree (VERIF_REPO): prints what leaks"""
import os, sys
sys.path.insert(0, os.path.dirname(os.path.dirname(os.path.abspath(__file__))))
from vt.core import loader
tf = loader.native()
import numpy as np
cl = loader.mod("config_loader")
cfg = {
 "data": {"dat_order": ["B", "C", "D"]},
 "decay": {"A": [["R_BC", "D"], ["R_BD", "C"]], "R_BC": ["B", "C"], "R_BD": ["B", "D"]},
 "particle": {"$top": {"A": {"J": 0, "P": -1, "mass": 3.0}},
              "$finals": {"B": {"J": 0, "P": -1, "mass": 0.5}, "C": {"J": 0, "P": -1, "mass": 0.4}, "D": {"J": 0, "P": -1, "mass": 0.3}},
              "R_BC": {"J": 1, "P": -1, "mass": 1.5, "width": 0.2}, "R_BD": {"J": 0, "P": 1, "mass": 1.4, "width": 0.3}},
}
config = cl.ConfigLoader(cfg)
amp = config.get_amplitude()
dg = amp.decay_group
ps = loader.mod("phasespace")
p = ps.PhaseSpaceGenerator(3.0, [0.5, 0.4, 0.3]).generate(50)
data = config.data.cal_angle({"B": p[0], "C": p[1], "D": p[2]})
out = {}
# (1) exception inside temp_used_res
before = list(dg.chains_idx)
try:
    with amp.temp_used_res(["R_BC"]):
        raise RuntimeError("boom")
except RuntimeError:
    pass
out["temp_used_res/exception"] = (before, list(dg.chains_idx))
dg.set_used_chains(before)
# (2) exception inside VarsManager.temp_params
name = amp.vm.trainable_vars[0]
v0 = float(amp.vm.get(name))
try:
    with amp.vm.temp_params({name: v0 + 1.0}):
        raise RuntimeError("boom")
except RuntimeError:
    pass
out["vm.temp_params/exception"] = (v0, float(amp.vm.get(name)))
amp.vm.set(name, v0)
# (3) restricted selection, then fit fractions without gradient
ff = loader.mod("fitfractions")
dg.set_used_res(["R_BC"])
before = list(dg.chains_idx)
ff.cal_fitfractions_no_grad(amp, data, batch=25)
out["cal_fitfractions_no_grad/normal_after_restricted_selection"] = (before, list(dg.chains_idx))
dg.set_used_chains([0, 1])
# (4) partial_weight with an amplitude that raises
orig = dg.sum_amp
calls = [0]
def boom(d):
    calls[0] += 1
    if calls[0] == 2:
        raise RuntimeError("boom")
    return orig(d)
dg.sum_amp = boom
before = list(dg.chains_idx)
try:
    dg.partial_weight(data)
except RuntimeError:
    pass
dg.sum_amp = orig
out["partial_weight/exception"] = (before, list(dg.chains_idx))
for k, (a, b) in out.items():
    print(("LEAK " if a != b else "ok   ") + k, "before", a, "after", b)

"""native replay: every minimiser name fit_scipy accepts must be able to return (C08); L-BFGS-B raised AttributeError"""
import os, sys
sys.path.insert(0, os.path.dirname(os.path.dirname(os.path.abspath(__file__))))
from vt.core import loader
tf = loader.native()
import numpy as np
fit = loader.mod("fit")
variable = loader.mod("variable")
vm = variable.VarsManager()
vm.add_real_var("a", 0.5)
vm.add_real_var("b", -0.3)
class F:
    def __init__(self): self.vm = vm; self.cached_nll = None
    def nll_grad(self, x={}):
        self.vm.set_all(x) if not isinstance(x, dict) else None
        a, b = [float(v) for v in self.vm.get_all_val()]
        self.cached_nll = (a - 1) ** 2 + 2 * (b + 2) ** 2
        return self.cached_nll, np.array([2 * (a - 1), 4 * (b + 2)])
    def get_params(self, trainable_only=False): return self.vm.get_all_dic(trainable_only)
try:
    r = fit.fit_scipy(F(), method="L-BFGS-B", bounds_dict={})
    print("returned min_nll", r.min_nll, "params", r.params)
    p = r.params
    ok = abs(p["a"] - 1) < 1e-4 and abs(p["b"] + 2) < 1e-4 and abs(r.min_nll) < 1e-6
    print("OK" if ok else "MISMATCH")
    sys.exit(0 if ok else 1)
except Exception as ex:
    print("RAISED", type(ex).__name__, ex)
    sys.exit(1)

import sys; sys.path.insert(0,'/verif')
import cProfile, pstats
from vt.core import loader, terms as tm, ring, backends, shim_tf, oblig, tower
import importlib, time
prop, grp, ci, ei = sys.argv[1], sys.argv[2], int(sys.argv[3]), int(sys.argv[4])
importlib.import_module('vt.props.'+prop)
spec = oblig.GROUPS[(prop,grp)]
ctx = oblig.SymCtx(spec,'quick',0); ctx._claims_now=[]
spec.fn(ctx)
kind,nm,a,b,opts = ctx._claims_now[ci]
l=tm._l(a.reshape(-1)[ei]); r=tm._l(b.reshape(-1)[ei])
pr = cProfile.Profile(); pr.enable()
res = oblig._discharge('x', kind, l, r, list(ctx.pre), [], opts, spec)
pr.disable()
print(res['status'], res['backend'], res['detail'][:200])
pstats.Stats(pr).sort_stats('cumulative').print_stats(28)

"""dev helper: run one group in-process with a watchdog stack dump.  usage: dbg_group.py PROP GROUP [seconds]"""
import sys; sys.path.insert(0,'/verif')
import faulthandler; faulthandler.dump_traceback_later(int(sys.argv[3]) if len(sys.argv)>3 else 90, exit=True)
from vt.core import oblig
import importlib, time
importlib.import_module('vt.props.'+sys.argv[1])
t0=time.time()
out = oblig.run_group(sys.argv[1], sys.argv[2], 'quick', 0)
for r in out['results']: print(r['name'], r['status'], r['backend'], r['time_s'], r['detail'][:300])
print(time.time()-t0)

import sys; sys.path.insert(0,'/verif')
import faulthandler; faulthandler.dump_traceback_later(300, exit=True)
from vt.core import loader, terms as tm, ring, backends, shim_tf, oblig, tower
import importlib, time
prop, grp, ci, ei = sys.argv[1], sys.argv[2], int(sys.argv[3]), int(sys.argv[4])
importlib.import_module('vt.props.'+prop)
spec = oblig.GROUPS[(prop,grp)]
ctx = oblig.SymCtx(spec,'quick',0); ctx._claims_now=[]
spec.fn(ctx)
kind,nm,a,b,opts = ctx._claims_now[ci]
print(nm)
l=tm._l(a.reshape(-1)[ei]); r=tm._l(b.reshape(-1)[ei])
cases = oblig._split_cases([l,r], ctx.pre)
print('cases', len(cases))
for case, terms in cases:
    g = tm.add(terms[0], tm.neg(terms[1]))
    t0=time.time(); tw = tower.Tower([g], 250)
    print('radicals', len(tw.rad_order))
    for gi in tw.rad_order:
        a = tw.atom_of_gen[gi]
        N = tw.rad[gi]
        print('  g%d'%gi, a.op, tm.short(a, 80), ' N has', len(N.P), 'monomials; den', N.d)
    e = tw.root_elems()[0]
    print('zero?', e.P==0, len(e.P), e.d, [len(D) for D in tw.dens], time.time()-t0)
    if e.P != 0:
        try:
            fl = e.P.factor_list()
            print('FACTORS', fl[0], [(str(f)[:200], m) for f, m in fl[1]])
        except Exception as ex:
            print('factor failed', ex)
    for gi in (5, 42, 4, 6, 7):
        if gi in tw.atom_of_gen: print('gen', gi, tm.short(tw.atom_of_gen[gi], 1500))

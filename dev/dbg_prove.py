import sys; sys.path.insert(0,'/verif')
import faulthandler; faulthandler.dump_traceback_later(900, exit=True)
from vt.core import loader, terms as tm, ring, backends, shim_tf, oblig, tower
import importlib, time
prop, grp, ci, ei = sys.argv[1], sys.argv[2], int(sys.argv[3]), int(sys.argv[4])
importlib.import_module('vt.props.'+prop)
spec = oblig.GROUPS[(prop,grp)]
ctx = oblig.SymCtx(spec,'quick',0); ctx._claims_now=[]
spec.fn(ctx)
kind,nm,a,b,opts = ctx._claims_now[ci]
l=tm._l(a.reshape(-1)[ei]); r=tm._l(b.reshape(-1)[ei])
cases = oblig._split_cases([l,r], ctx.pre)
for case, terms in cases:
    g = tm.add(terms[0], tm.neg(terms[1]))
    hy_case = ctx.pre + case
    calls = []
    def oracle(t):
        v = backends.prove(hy_case, tm.le(tm.ZERO, t), rlimit=2000000, use_cvc5=False)
        res = None
        if v.status == "proved": res = 1
        else:
            v = backends.prove(hy_case, tm.le(t, tm.ZERO), rlimit=2000000, use_cvc5=False)
            if v.status == "proved": res = -1
        calls.append((tm.short(t, 200), res))
        return res
    ats = [a_ for a_ in tm.atoms([g]) if a_.op == "v"]
    for mode in ("no-oracle", "oracle", "oracle+control"):
        t0 = time.time()
        st, info = tower.is_zero(g, budget_s=120, control=(tm.add(g, ats[0]) if mode.endswith("control") else None), sign_oracle=(None if mode == "no-oracle" else oracle))
        info.pop("side_conditions", None)
        print(mode, st, info, round(time.time()-t0, 2))
    for c in calls: print("  oracle:", c)

import sys; sys.path.insert(0,'/verif')
import faulthandler; faulthandler.dump_traceback_later(400, exit=True)
from vt.core import loader, terms as tm, ring, backends, shim_tf, oblig, tower
import importlib, time
prop, grp, ci, ei = sys.argv[1], sys.argv[2], int(sys.argv[3]), int(sys.argv[4])
importlib.import_module('vt.props.'+prop)
spec = oblig.GROUPS[(prop,grp)]
ctx = oblig.SymCtx(spec,'quick',0); ctx._claims_now=[]
spec.fn(ctx)
kind,nm,a,b,opts = ctx._claims_now[ci]
print(nm)
l=tm._l(a.reshape(-1)[ei]); r=tm._l(b.reshape(-1)[ei])
t0=time.time()
cases = oblig._split_cases([l,r], ctx.pre)
print('cases', len(cases), time.time()-t0)
for case, terms in cases:
    print('case', [tm.short(c,150) for c in case])
    hy = ctx.pre + case
    d = tm.definedness(terms)
    # split conjunction
    conj=[]
    def flat(t):
        if t.op=='and': flat(t.args[0]); flat(t.args[1])
        else: conj.append(t)
    flat(d)
    print(len(conj),'definedness conjuncts')
    for c in conj:
        t0=time.time()
        v = backends.prove(hy, c, rlimit=2000000, use_cvc5=False)
        if v.status!='proved':
            print('  ', v.status, v.backend, round(time.time()-t0,2), tm.short(c,300))
            print('     simplified:', tm.short(tower.simplify_formula(c),300))

import sys; sys.path.insert(0,'/verif')
from vt.core import oblig
import importlib
importlib.import_module('vt.props.'+sys.argv[1])
out = oblig.run_group(sys.argv[1], sys.argv[2], 'quick', 0)
for r in out['results']:
    if r['status']!='proved': print(r['name'], r['status'], r['backend'], r['time_s'], r['detail'][-2500:])
print(len(out['results']),'results', sum(r['status']=='proved' for r in out['results']),'proved')
